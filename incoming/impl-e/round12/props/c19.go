package props

import (
	"fmt"
	"go/token"
	"go/types"
	"sort"
	"strings"

	"golang.org/x/tools/go/ssa"

	"verif/checker/an"
)

func init() {
	register("C19", Prop{
		Pkgs: []string{"./mfs"},
		Explain: "Decided (structural necessary conditions of 'MFS behaves as a hierarchical filesystem and persists what it shows'): " +
			"O1 a move (function that adds an entry to one Directory and unlinks another entry) unlinks the source only on the nil-error edge of the destination AddChild (no tree mutation before the fallible step) and skips the unlink only where source and destination are the same Directory object (pointer identity) and the same entry name; nowhere are the names of two different inodes compared to decide anything; " +
			"O2 Directory.Unlink drops the cache entry, marks a cached File/Directory child unlinked and removes the link from the UnixFS directory, returning that result; Directory.AddChild and mkdirWithOpts add to the UnixFS directory only where a lookup of the same name failed, and mkdirWithOpts caches the directory object whose node it linked; flushUp propagates to the parent only while the file is not unlinked; " +
			"O3 upward propagation: every parent.updateChildEntry(child{Name,Node}) passes the inode's own name to the inode's own parent, with a node that was added to the DAG service in the same function (or returned by a helper that adds it), and the propagating functions (Directory.updateChildEntry, Directory.Flush, File/Directory.setNodeData) reach it on every non-error path; flushUp reaches it on every path with fullSync set and the file not unlinked; Root.updateChildEntry hands the child's CID to the republisher on every success path; " +
			"O4 settings that are not stored in the DAG node (MaxLinks, MaxHAMTFanout, HAMTShardingSize, SizeEstimationMode) are carried over, each from its own getter, at every site that replaces or creates a directory object from a node (cacheNode, Directory.setNodeData), are filled from the parent in options.fillFrom, and applied by newEmptyDirectory and NewRoot. " +
			"O5 descriptor state machine: every descriptor method that modifies its DagModifier (Write*, Truncate*, ...) marks the descriptor dirty first; flushUp skips its work only in state flushed, installs the DagModifier's node (added to the DAG service) in File.node before it marks the descriptor flushed, and marks it only after every fallible step succeeded; Flush propagates with fullSync; Close/Flush reach flushUp; closing marks the descriptor closed; " +
			"O6 child cache: cacheNode caches exactly the object it returns under the looked-up name; the directory node is produced only after the cached children were synced into the UnixFS directory; Directory.AddChild stores the node in the DAG service before linking it; " +
			"O7 error atomicity of multi-step operations (necessary condition of 'a failed call changes nothing'): in every function of package mfs that removes an entry (calls Directory.Unlink, directly or through same-package helpers) no fallible operand resolution — a call with a used error result and an inode/node result (Directory.Child, Lookup, DirLookup, GetNode, helpers of that shape) — is reachable from the removal; this also covers the move of a file onto itself (the source node is captured before the destination entry is unlinked). " +
			"Round 12 additions: O1 where the move is redirected into an existing destination directory the entry name arriving over the same merge edge is the source name (followed through a helper returning the destination pair); O6 every iteration of cacheSync over entriesCache links the entry (no bypass back to the loop head). " +
			"NOT decided: equivalence with a tree model over operation sequences, 'failed operations leave the tree unchanged' beyond O1/O7 (failures of the non-lookup steps AddChild/Unlink themselves), contents of the flushed DAG (runtime values).",
		Assume:    []string{"uio.Directory implementations behave as name->node maps (C15)", "unexported fields of mfs are only reachable from package mfs"},
		Technique: "R-CMP on the edge that bypasses the unlink (pointer identity + name equality), R-API (no name comparison between inodes), R-PAIR/R-DOM on Unlink and add guards, R-FLOW on child{Name,Node} and receiver, R-POST on propagation, R-SIB/R-TABLE on directory settings",
		Run:       runC19,
	})
}

const c19uio = "ipld/unixfs/io"

func runC19(c *an.Ctx) {
	const pk = "mfs"
	p := c.P
	c20KeyProg = p
	if !c19NeedNames(c, c19MfsNames(c)) {
		return
	}
	fns := p.PkgFuncs(pk)
	if !c.Need(len(fns) > 50, "functions of package mfs") {
		return
	}
	c19Move(c, pk, fns)
	c19ErrAtomic(c, pk, fns)
	c19Unlink(c, pk, fns)
	c19Propagation(c, pk, fns)
	c19Settings(c, pk, fns)
	// O5: descriptor state machine (what a descriptor changed reaches the file,
	// its directory and the root): shared with C20
	c20Flush(c, pk)
	c19Cache(c, pk, fns)
}

// ---------------------------------------------------------------- O1

func c19Move(c *an.Ctx, pk string, fns []*ssa.Function) {
	p := c.P
	fName := p.Field(pk, c19MfsNames(c).Inode, c19MfsNames(c).InName)
	if !c.Need(fName != nil, "mfs.inode.name") {
		return
	}
	isDirPtr := func(t types.Type) bool {
		_, ok := t.(*types.Pointer)
		return ok && an.TypeIs(t, pk, "Directory")
	}
	// skipCheck: in g, starting after `from` (nil = entry) and not crossing
	// `cut`, every return that bypasses the unlink site u must lie behind the
	// edges "srcDir == dstDir" and "srcName == dstName". Missing operands (nil)
	// mean the comparison cannot be expressed in g: any bypass is then a violation.
	type skipRes struct {
		n   int
		bad []string
		at  token.Pos
	}
	skipCheck := func(g *ssa.Function, from ssa.Instruction, cut an.EdgeSet, u ssa.Instruction, srcDir, dstDir, srcName, dstName ssa.Value) skipRes {
		same := func(x, y, a, b ssa.Value) bool {
			if a == nil || b == nil {
				return false
			}
			return (an.SameObj(x, a) && an.SameObj(y, b)) || (an.SameObj(x, b) && an.SameObj(y, a))
		}
		ptrEq := an.XCondEdges(g, func(atom ssa.Value) (bool, bool) {
			b, ok := atom.(*ssa.BinOp)
			if !ok || (b.Op != token.EQL && b.Op != token.NEQ) || !isDirPtr(b.X.Type()) || !isDirPtr(b.Y.Type()) {
				return false, false
			}
			if !same(b.X, b.Y, srcDir, dstDir) {
				return false, false
			}
			return b.Op == token.EQL, b.Op == token.NEQ
		})
		nameEq := an.XCondEdges(g, func(atom ssa.Value) (bool, bool) {
			b, ok := atom.(*ssa.BinOp)
			if !ok || (b.Op != token.EQL && b.Op != token.NEQ) {
				return false, false
			}
			if !same(b.X, b.Y, srcName, dstName) {
				return false, false
			}
			return b.Op == token.EQL, b.Op == token.NEQ
		})
		var res skipRes
		for _, r := range an.Returns(g) {
			if !an.XReaches(g, from, r, cut, map[ssa.Instruction]bool{u: true}) {
				continue
			}
			if from == nil && an.ReturnErrKind(g, r) == an.ErrKindNonNil {
				continue
			}
			res.n++
			okPtr := !an.XReaches(g, from, r, ptrEq.Union(cut), map[ssa.Instruction]bool{u: true})
			okName := !an.XReaches(g, from, r, nameEq.Union(cut), map[ssa.Instruction]bool{u: true})
			if !okPtr {
				res.bad = append(res.bad, "it is not conditioned on source and destination being the same *Directory (pointer comparison of the receivers of Unlink and AddChild)")
				res.at = r.Pos()
			}
			if !okName {
				res.bad = append(res.bad, "it is not conditioned on the source and destination entry names being equal")
				res.at = r.Pos()
			}
		}
		res.bad = c20Uniq(res.bad)
		return res
	}
	isUnlink := func(in ssa.Instruction, env *an.IPEnv) bool {
		call, ok := in.(ssa.CallInstruction)
		return ok && an.M(pk, "Directory", "Unlink").Match(an.Callee(call))
	}
	nMoves := 0
	for _, fn := range fns {
		adds := an.Calls(fn, an.M(pk, "Directory", "AddChild"))
		for _, a := range adds {
			if _, isCall := a.(*ssa.Call); !isCall {
				continue
			}
			dstDir, dstName := an.Recv(a), an.Args(a)[0]
			addFailed := an.NilEdges(fn, an.ErrResult(a), false)
			rootsIn := func(v ssa.Value, env *an.IPEnv) map[ssa.Value]bool {
				// in the terms of fn: a helper's parameter is its actual argument
				for e := env; e != nil && v != nil; e = e.Up {
					prm, ok := v.(*ssa.Parameter)
					if !ok {
						return map[ssa.Value]bool{}
					}
					v = e.Actual(prm)
				}
				m := map[ssa.Value]bool{}
				if v == nil {
					return m
				}
				// through helpers that hand one of their parameters back
				// (prepareDestination(dstDir, ...) (dir, name, err)), but not into
				// producers such as a path lookup, whose results are opaque here
				stop := &an.FlowOpts{StopAt: func(x ssa.Value) bool {
					if e, ok := x.(*ssa.Extract); ok {
						x = e.Tuple
					}
					call, ok := x.(*ssa.Call)
					if !ok {
						return false
					}
					return !c19PassesParam(an.Callee(call).Static)
				}}
				for _, r := range an.IPRoots(v, nil, stop) {
					m[r.V] = true
				}
				return m
			}
			subset := func(a, b map[ssa.Value]bool) bool {
				if len(a) == 0 {
					return false
				}
				for k := range a {
					if !b[k] {
						return false
					}
				}
				return true
			}
			dstDirRoots, dstNameRoots := rootsIn(dstDir, nil), rootsIn(dstName, nil)
			for _, ui := range an.IPInner(fn, nil, isUnlink) {
				outer := ui.Outer()
				u := ui.In.(ssa.CallInstruction)
				// clearing the destination entry itself (overwrite of an existing file) is not the move's source removal
				if subset(rootsIn(an.Recv(u), ui.Env), dstDirRoots) && subset(rootsIn(an.Args(u)[0], ui.Env), dstNameRoots) {
					continue
				}
				if !an.Reaches(fn, a, outer, nil, nil) && !an.Reaches(fn, outer, a, nil, nil) {
					continue
				}
				nMoves++
				name := c20KeyName(fn)
				// the source is removed only once the fallible add into the destination succeeded
				c.Check(an.OnNilEdgeOf(fn, a, outer), "O1", "R-DOM", name, "source-unlink<=add-ok", outer.Pos(),
					"the source entry is unlinked only on the nil-error edge of the destination AddChild",
					"the source entry can be unlinked before (or regardless of) the outcome of the destination AddChild: a move that fails (e.g. ErrDirExists at the destination) has already deleted the source — a failed operation changes the tree")
				if !an.Reaches(fn, a, outer, nil, nil) {
					continue
				}
				// two sites agree: where the destination turns out to be an
				// existing directory and the move is redirected into it, the
				// entry keeps the source name (the same choice as for a
				// destination written with a trailing slash)
				if ui.Env == nil {
					if n, bad, at := c19RedirectKeepsName(fn, dstDir, dstName, an.Args(u)[0], pk, 0); n > 0 {
						c.Check(len(bad) == 0, "O1", "R-CMP", name, "dest-is-directory=>entry-keeps-source-name", at,
							"where the move is redirected into an existing destination directory the new entry gets the source entry's name",
							"the move is redirected into an existing destination directory but the entry name is not the source name there ("+strings.Join(bad, "; ")+"): Mv(/a/f, /b) with /b a directory creates /b/<other name> (or fails with 'already exists') instead of /b/f")
					}
				}
				var all skipRes
				if ui.Env == nil {
					all = skipCheck(fn, a, addFailed, u, an.Recv(u), dstDir, an.Args(u)[0], dstName)
				} else if ui.Env.Up == nil {
					// the unlink (and possibly the decision) lives in a helper h called at `outer`
					h := ui.Env.Fn
					// in fn: bypassing the helper call; operands are the actuals
					var srcDirFn, srcNameFn ssa.Value
					if prm, ok := an.Recv(u).(*ssa.Parameter); ok {
						srcDirFn = ui.Env.Actual(prm)
					}
					if prm, ok := an.Args(u)[0].(*ssa.Parameter); ok {
						srcNameFn = ui.Env.Actual(prm)
					}
					all = skipCheck(fn, a, addFailed, outer, srcDirFn, dstDir, srcNameFn, dstName)
					// in h: the parameters that carry the destination
					var dstDirH, dstNameH ssa.Value
					for _, prm := range h.Params {
						if act := ui.Env.Actual(prm); act != nil {
							if an.SameObj(act, dstDir) && isDirPtr(prm.Type()) {
								dstDirH = prm
							}
							if an.SameObj(act, dstName) {
								dstNameH = prm
							}
						}
					}
					inner := skipCheck(h, nil, nil, u, an.Recv(u), dstDirH, an.Args(u)[0], dstNameH)
					all.n += inner.n
					all.bad = c20Uniq(append(all.bad, inner.bad...))
					if inner.at != token.NoPos {
						all.at = inner.at
					}
				} else {
					c.Note("O1: %s reaches Directory.Unlink through more than one helper level; move pattern not analysed", name)
					continue
				}
				if all.n == 0 {
					c.OK("O1", "R-CMP", name, "unlink-always-follows-add", outer.Pos(), "every success path after AddChild unlinks the source")
					continue
				}
				at := all.at
				if at == token.NoPos {
					at = outer.Pos()
				}
				c.Check(len(all.bad) == 0, "O1", "R-CMP", name, "unlink-skipped-only-for-same-entry", at,
					"after a successful AddChild the source Unlink is skipped only where the source and destination are the same directory object and name",
					"after a successful AddChild the function can return without unlinking the source: "+strings.Join(all.bad, "; ")+" — moving between different directories (e.g. with equal names, /a/x/f -> /b/x/f) leaves the entry at the source")
			}
		}
	}
	c.Min("O1 move patterns (AddChild into one directory and Unlink of another entry)", nMoves, 1)

	// no comparison of the names of two different inodes anywhere
	nCmp, nBad := 0, 0
	for _, fn := range fns {
		an.Instrs(fn, func(in ssa.Instruction) {
			b, ok := in.(*ssa.BinOp)
			if !ok || (b.Op != token.EQL && b.Op != token.NEQ) {
				return
			}
			base := func(v ssa.Value) (ssa.Value, bool) {
				u, ok := v.(*ssa.UnOp)
				if !ok || u.Op != token.MUL {
					return nil, false
				}
				f, bs := an.FieldOf(u.X)
				if f != fName {
					return nil, false
				}
				return bs, true
			}
			bx, okx := base(b.X)
			by, oky := base(b.Y)
			if okx || oky {
				nCmp++
			}
			if okx && oky && !an.SameObj(bx, by) {
				nBad++
				c.Bad("O1", "R-API", c20KeyName(fn), "inode-name-vs-inode-name", b.Pos(),
					"the names of two different inodes ("+an.PathOf(bx)+" and "+an.PathOf(by)+") are compared: a name identifies an entry only inside one parent, so equal names do not mean the same directory/file")
			}
		})
	}
	if nBad == 0 {
		c.OK("O1", "R-API", pk, "no-identity-by-name", token.NoPos, fmt.Sprintf("no comparison between the names of two inodes (%d comparisons involve inode.name at all)", nCmp))
	}
}

// ---------------------------------------------------------------- O2

// c19FromCacheLookup: v derives from d.entriesCache[key] (comma-ok or plain).
func c19FromCacheLookup(v ssa.Value, cache *types.Var, key ssa.Value) bool {
	for _, r := range an.Roots(v, nil) {
		var lk *ssa.Lookup
		switch x := r.(type) {
		case *ssa.Lookup:
			lk = x
		case *ssa.Extract:
			lk, _ = x.Tuple.(*ssa.Lookup)
		}
		if lk == nil {
			return false
		}
		u, ok := lk.X.(*ssa.UnOp)
		if !ok {
			return false
		}
		if f, _ := an.FieldOf(u.X); f != cache {
			return false
		}
		if key != nil && !an.SameObj(lk.Index, key) {
			return false
		}
	}
	return true
}

func c19Unlink(c *an.Ctx, pk string, fns []*ssa.Function) {
	p := c.P
	fCache, fUnl, fUfs := p.Field(pk, "Directory", c19MfsNames(c).DirCache), p.Field(pk, c19MfsNames(c).Inode, c19MfsNames(c).InUnlinked), p.Field(pk, "Directory", c19MfsNames(c).DirUfs)
	if !c.Need(fCache != nil && fUnl != nil && fUfs != nil, "Directory.entriesCache, inode.unlinked, Directory.unixfsDir") {
		return
	}
	onUfs := func(call ssa.CallInstruction) bool {
		u, ok := an.Recv(call).(*ssa.UnOp)
		if !ok {
			return false
		}
		f, _ := an.FieldOf(u.X)
		return f == fUfs
	}
	isRm := func(in ssa.Instruction, env *an.IPEnv) bool {
		call, ok := in.(ssa.CallInstruction)
		return ok && an.M(c19uio, "Directory", "RemoveChild").Match(an.Callee(call)) && onUfs(call)
	}
	topLevel := func(fn *ssa.Function) bool {
		if fn.Parent() != nil {
			return false
		}
		sites, open := an.IPCallSites(fns, fn)
		return open || len(sites) == 0
	}
	rootVals := func(v ssa.Value, env *an.IPEnv) map[ssa.Value]bool {
		m := map[ssa.Value]bool{}
		for _, r := range an.IPRoots(v, env, nil) {
			m[c19StripIface(r.V)] = true
		}
		return m
	}
	overlap := func(a, b map[ssa.Value]bool) bool {
		for k := range a {
			if b[k] {
				return true
			}
		}
		return false
	}
	// (a) removal: judged in the top-level method through which the link is removed
	nRm := 0
	for _, fn := range p.Methods(pk, "Directory") {
		if !topLevel(fn) {
			continue
		}
		for _, rmi := range an.IPInner(fn, nil, isRm) {
			rm := rmi.In.(ssa.CallInstruction)
			rmOuter := rmi.Outer()
			nRm++
			name := c20KeyName(fn)
			key := rootVals(an.Args(rm)[1], rmi.Env)
			// cache entry dropped before, on every path
			isDel := func(in ssa.Instruction, env *an.IPEnv) bool {
				d, ok := in.(ssa.CallInstruction)
				if !ok || an.Callee(d).Builtin != "delete" {
					return false
				}
				args := d.Common().Args
				u, ok := args[0].(*ssa.UnOp)
				if !ok {
					return false
				}
				f, _ := an.FieldOf(u.X)
				return f == fCache && overlap(rootVals(args[1], env), key)
			}
			okDel := false
			// innermost function that contains the removal, then outwards
			h := rm.Parent()
			var site ssa.Instruction = rm
			for e := rmi.Env; ; e = e.Up {
				dels := an.IPSites(h, e, true, isDel)
				var before []ssa.Instruction
				for _, d := range dels {
					if d != site {
						before = append(before, d)
					}
				}
				if len(before) > 0 && an.MustPrecede(h, site, before) {
					okDel = true
				}
				if e == nil || okDel {
					break
				}
				site = e.Call
				h = e.Call.Parent()
			}
			c.Check(okDel, "O2", "R-PAIR", name, "RemoveChild<=delete(entriesCache)", rmOuter.Pos(),
				"the cached child is dropped on every path that removes the link",
				"the link is removed from the UnixFS directory without deleting the same name from entriesCache: the next GetNode/Flush re-adds the cached child and the entry reappears")
			// result reported all the way out
			reported := true
			var val ssa.Value = an.CallValue(rm)
			for e := rmi.Env; ; e = e.Up {
				ret := false
				if val != nil {
					for _, u := range an.Uses(val) {
						if _, ok := u.(*ssa.Return); ok {
							ret = true
						}
					}
				}
				if !ret {
					reported = false
				}
				if e == nil {
					break
				}
				val, _ = e.Call.(ssa.Value)
			}
			c.Check(reported, "O2", "R-FLOW", name, "RemoveChild-result-returned", rmOuter.Pos(), "the result of RemoveChild is what the caller sees",
				"the error of RemoveChild is dropped: removing a missing entry is reported as success")
			// unlinked marks
			for _, T := range []string{"File", "Directory"} {
				type mark struct {
					st an.IPInstr
					ta *ssa.TypeAssert
				}
				var marks []mark
				for _, mi := range an.IPInner(fn, nil, func(in ssa.Instruction, env *an.IPEnv) bool {
					st, ok := in.(ssa.CallInstruction)
					if !ok || !an.M("sync/atomic", "Bool", "Store").Match(an.Callee(st)) {
						return false
					}
					fa, ok := an.Recv(st).(*ssa.FieldAddr)
					if !ok {
						return false
					}
					if f, _ := an.FieldOf(fa); f != fUnl {
						return false
					}
					k, isK := an.ConstOf(an.Args(st)[0])
					return isK && k.String() == "true"
				}) {
					st := mi.In.(ssa.CallInstruction)
					ib, ok := an.Recv(st).(*ssa.FieldAddr).X.(*ssa.FieldAddr)
					if !ok {
						continue
					}
					var ta *ssa.TypeAssert
					switch x := ib.X.(type) {
					case *ssa.Extract:
						ta, _ = x.Tuple.(*ssa.TypeAssert)
					case *ssa.TypeAssert:
						ta = x
					}
					if ta == nil || !an.TypeIs(ta.AssertedType, pk, T) {
						continue
					}
					// the asserted value is the cached child of the removed name
					fromCache := true
					rs := an.IPRoots(ta.X, mi.Env, nil)
					for _, r := range rs {
						var lk *ssa.Lookup
						switch x := r.V.(type) {
						case *ssa.Lookup:
							lk = x
						case *ssa.Extract:
							lk, _ = x.Tuple.(*ssa.Lookup)
						}
						if lk == nil {
							fromCache = false
							break
						}
						u, ok := lk.X.(*ssa.UnOp)
						if !ok {
							fromCache = false
							break
						}
						if f, _ := an.FieldOf(u.X); f != fCache || !overlap(rootVals(lk.Index, r.Env), key) {
							fromCache = false
						}
					}
					if fromCache && len(rs) > 0 {
						marks = append(marks, mark{mi, ta})
					}
				}
				ok := len(marks) > 0
				for _, m := range marks {
					mfn := m.ta.Parent()
					var oks []ssa.Value
					if refs := m.ta.Referrers(); refs != nil {
						for _, r := range *refs {
							if e, isE := r.(*ssa.Extract); isE && e.Index == 1 {
								oks = append(oks, e)
							}
						}
					}
					notT := an.BoolEdges(mfn, oks, false)
					blocked := map[ssa.Instruction]bool{m.st.In: true}
					if mfn == rm.Parent() {
						// same function as the removal: on the is-a-T edge the mark precedes it
						if len(oks) > 0 && an.Reaches(mfn, m.ta, rm, notT, blocked) {
							ok = false
						}
					} else if len(oks) > 0 && an.ReachesAnyReturn(mfn, m.ta, notT, blocked) != nil {
						// helper: on the is-a-T edge it cannot return without marking
						ok = false
					}
					mo := m.st.Outer()
					if mo != rmOuter && an.Reaches(fn, rmOuter, mo, nil, nil) && !an.Reaches(fn, mo, rmOuter, nil, nil) {
						ok = false // marking only after the removal
					}
					if mo != m.st.In && mo != rmOuter {
						// the marking helper runs before the removal whenever the name is cached
						if !an.Reaches(fn, mo, rmOuter, nil, nil) {
							ok = false
						}
					}
				}
				c.Check(ok, "O2", "R-PAIR", name, "cached-"+T+"-marked-unlinked", rmOuter.Pos(),
					"a cached *"+T+" child is marked unlinked before its link is removed",
					"a cached *"+T+" child is not marked unlinked on every path before RemoveChild: an open descriptor of the removed entry re-adds it to this directory on Close/Flush")
			}
		}
	}
	c.Min("O2 RemoveChild sites", nRm, 1)

	// (b) additions of new entries: uio AddChild under a name that is a string
	// parameter of the enclosing function (AddChild, mkdirWithOpts, or a link
	// helper extracted from them) — not the update/sync paths, which take the
	// name from a child struct or the cache
	nAdd := 0
	nodeT := func(t types.Type) bool { return an.TypeIs(t, "github.com/ipfs/go-ipld-format", "Node") }
	for _, fn := range p.Methods(pk, "Directory") {
		for _, add := range an.Calls(fn, an.M(c19uio, "Directory", "AddChild")) {
			if !onUfs(add) {
				continue
			}
			prm, isParam := an.Args(add)[1].(*ssa.Parameter)
			if !isParam || prm.Parent() != fn {
				continue
			}
			nAdd++
			guarded := func(g *ssa.Function, site ssa.Instruction) bool {
				sc, ok := site.(ssa.CallInstruction)
				if !ok {
					return false
				}
				var lookups []ssa.Value
				for _, lk := range an.AllCalls(g) {
					// a lookup: Directory method (name string) (FSNode, error) on the same directory
					h := an.Callee(lk).Static
					if h == nil || h.Signature.Recv() == nil || !an.TypeIs(h.Signature.Recv().Type(), pk, "Directory") {
						continue
					}
					sg := h.Signature
					if sg.Params().Len() != 1 || sg.Results().Len() != 2 || !an.TypeIs(sg.Results().At(0).Type(), pk, "FSNode") || !an.IsErrorType(sg.Results().At(1).Type()) {
						continue
					}
					if an.Recv(lk) == nil || !an.SameObj(an.Recv(lk), g.Params[0]) {
						continue
					}
					for _, a := range sc.Common().Args {
						if an.SameObj(an.Args(lk)[0], a) {
							lookups = append(lookups, an.ErrResult(lk)...)
						}
					}
				}
				return len(lookups) > 0 && an.GuardedBy(g, nil, site, an.NilEdges(g, lookups, false))
			}
			c.Check(an.IPGuarded(fns, add, guarded), "O2", "R-DOM", c20KeyName(fn), "add<=lookup-failed", add.Pos(),
				"the entry is added only where a lookup of the same name in this directory failed",
				"an entry is added to the UnixFS directory without a failed lookup of the same name first: an existing entry is silently replaced (and a cached child keeps shadowing the new node)")
		}
	}
	c.Min("O2 additions of new entries", nAdd, 1)
	// a function that links a node and caches an object under the same name caches the object whose node it linked, after the link succeeded
	isLink := func(in ssa.Instruction, env *an.IPEnv) bool {
		call, ok := in.(ssa.CallInstruction)
		return ok && an.M(c19uio, "Directory", "AddChild").Match(an.Callee(call)) && onUfs(call)
	}
	nPair := 0
	for _, fn := range p.Methods(pk, "Directory") {
		var upd []*ssa.MapUpdate
		an.Instrs(fn, func(in ssa.Instruction) {
			if mu, ok := in.(*ssa.MapUpdate); ok {
				if u, ok := mu.Map.(*ssa.UnOp); ok {
					if f, _ := an.FieldOf(u.X); f == fCache {
						upd = append(upd, mu)
					}
				}
			}
		})
		links := an.IPInner(fn, nil, isLink)
		if len(upd) == 0 || len(links) == 0 {
			continue
		}
		for _, mu := range upd {
			for _, l := range links {
				lc := l.In.(ssa.CallInstruction)
				if !overlap(rootVals(an.Args(lc)[1], l.Env), rootVals(mu.Key, nil)) {
					continue
				}
				nPair++
				oc, isCall := l.Outer().(ssa.CallInstruction)
				good := isCall && an.OnNilEdgeOf(fn, oc, mu)
				objOK := false
				stopGetNode := &an.FlowOpts{StopAt: func(v ssa.Value) bool {
					_, ok := an.IsCallTo(v, an.M(pk, "Directory", "GetNode"), an.M(pk, "FSNode", "GetNode"))
					return ok
				}}
				for _, r := range an.IPRoots(an.Args(lc)[2], l.Env, stopGetNode) {
					if nodeCall, ok := an.IsCallTo(r.V, an.M(pk, "Directory", "GetNode"), an.M(pk, "FSNode", "GetNode")); ok && r.Env == nil {
						if an.SameObj(an.Recv(nodeCall), c19StripIface(mu.Value)) {
							objOK = true
						}
					}
				}
				_ = nodeT
				c.Check(good && objOK, "O2", "R-PAIR", c20KeyName(fn), "cache[name]=object-of-linked-node", mu.Pos(),
					"after the link is added the same directory object is cached under the same name",
					"the directory object cached under the name is not the one whose node was linked (or is cached although AddChild failed): lookups and the DAG disagree")
			}
		}
	}
	c.Min("O2 link+cache pairs", nPair, 1)

	// (c) propagate only while linked: in every function that tests the
	// unlinked flag, each upward update (direct or through a helper) lies
	// behind the "not unlinked" edge
	upMatch := an.M(pk, c19MfsNames(c).Parent, c19MfsNames(c).UpMethod)
	for _, fn := range fns {
		var vals []ssa.Value
		for _, l := range an.Calls(fn, an.M("sync/atomic", "Bool", "Load")) {
			if fa, ok := an.Recv(l).(*ssa.FieldAddr); ok {
				if f, _ := an.FieldOf(fa); f == fUnl {
					if v := an.CallValue(l); v != nil {
						vals = append(vals, v)
					}
				}
			}
		}
		if len(vals) == 0 {
			continue
		}
		for _, up := range an.IPSites(fn, nil, false, func(in ssa.Instruction, env *an.IPEnv) bool {
			call, ok := in.(ssa.CallInstruction)
			return ok && upMatch.Match(an.Callee(call))
		}) {
			c.Check(an.GuardedBy(fn, nil, up, an.BoolEdges(fn, vals, false)), "O2", "R-DOM", c20KeyName(fn), "propagate-only-if-linked", up.Pos(),
				"the parent entry is updated only where unlinked.Load() is false",
				"the parent entry is updated although the file may have been unlinked: a removed or moved-away entry reappears in its old directory")
		}
	}
}

func c19StripIface(v ssa.Value) ssa.Value {
	for {
		switch x := v.(type) {
		case *ssa.MakeInterface:
			v = x.X
		case *ssa.ChangeInterface:
			v = x.X
		default:
			return v
		}
	}
}

// ---------------------------------------------------------------- O3

// c19ChildLit returns the values stored into the Name and Node fields of the
// child struct passed as argument v.
func c19ChildLit(v ssa.Value) (name, node ssa.Value) {
	u, ok := v.(*ssa.UnOp)
	if !ok || u.Op != token.MUL {
		return nil, nil
	}
	a, ok := u.X.(*ssa.Alloc)
	if !ok || a.Referrers() == nil {
		return nil, nil
	}
	for _, r := range *a.Referrers() {
		fa, ok := r.(*ssa.FieldAddr)
		if !ok || fa.Referrers() == nil {
			continue
		}
		f, _ := an.FieldOf(fa)
		for _, s := range *fa.Referrers() {
			if st, ok := s.(*ssa.Store); ok && st.Addr == fa {
				switch f.Name() {
				case "Name":
					name = st.Val
				case "Node":
					node = st.Val
				}
			}
		}
	}
	return
}

// c19AddsItsResult: every success return of fn yields (possibly through
// Copy()/type assertion) a node that was passed to DAGService.Add on the
// nil-error edge before the return.
func c19AddsItsResult(fn *ssa.Function) bool {
	if fn == nil || fn.Blocks == nil {
		return false
	}
	adds := an.Calls(fn, c19AddM...)
	if len(adds) == 0 {
		return false
	}
	through := &an.FlowOpts{Through: func(call *ssa.Call) ([]ssa.Value, bool) {
		if ci := an.Callee(call); ci.Name == "Copy" && an.Recv(call) != nil {
			return []ssa.Value{an.Recv(call)}, true
		}
		return nil, false
	}}
	some := false
	for _, r := range an.Returns(fn) {
		if len(r.Results) == 0 || an.ReturnErrKind(fn, r) == an.ErrKindNonNil || !an.Reaches(fn, nil, r, nil, nil) {
			continue
		}
		if an.IsNilConst(r.Results[0]) {
			continue
		}
		ok := false
		for _, root := range an.Roots(r.Results[0], through) {
			root = c19StripIface(root)
			for _, a := range adds {
				arg := c19StripIface(an.Args(a)[1])
				if (an.SameObj(root, arg) || c19SameRoot(root, arg)) && an.OnNilEdgeOf(fn, a, r) {
					ok = true
				}
			}
		}
		if !ok {
			return false
		}
		some = true
	}
	return some
}

// c19SameRoot: both values derive from one producer (x and x.(*T)).
func c19SameRoot(a, b ssa.Value) bool {
	ra, rb := an.Roots(a, nil), an.Roots(b, nil)
	for _, x := range ra {
		for _, y := range rb {
			if c19StripIface(x) == c19StripIface(y) {
				return true
			}
		}
	}
	return false
}

var c19AddM = []an.Matcher{an.M("github.com/ipfs/go-ipld-format", "DAGService", "Add"), an.M("github.com/ipfs/go-ipld-format", "NodeAdder", "Add")}

// c19Contexts: environments in which a direct construct of fn has to be
// judged: fn itself, or — when fn is a closed helper whose parameters feed the
// construct — every call site of fn.
func c19Contexts(fns []*ssa.Function, fn *ssa.Function, vals ...ssa.Value) []*an.IPEnv {
	usesParam := false
	for _, v := range vals {
		if an.IPUsesParam(v, fn) {
			usesParam = true
		}
	}
	if !usesParam || fn.Parent() != nil {
		return []*an.IPEnv{nil}
	}
	sites, open := an.IPCallSites(fns, fn)
	if open || len(sites) == 0 {
		return []*an.IPEnv{nil}
	}
	var out []*an.IPEnv
	for _, s := range sites {
		out = append(out, &an.IPEnv{Fn: fn, Call: s})
	}
	return out
}

func c19Propagation(c *an.Ctx, pk string, fns []*ssa.Function) {
	p := c.P
	fParent, fName := p.Field(pk, c19MfsNames(c).Inode, c19MfsNames(c).InParent), p.Field(pk, c19MfsNames(c).Inode, c19MfsNames(c).InName)
	if !c.Need(fParent != nil && fName != nil, "inode.parent, inode.name") {
		return
	}
	upM := an.M(pk, c19MfsNames(c).Parent, c19MfsNames(c).UpMethod)
	isAdd := func(in ssa.Instruction, env *an.IPEnv) bool {
		call, ok := in.(ssa.CallInstruction)
		if !ok {
			return false
		}
		for _, m := range c19AddM {
			if m.Match(an.Callee(call)) {
				return true
			}
		}
		return false
	}
	// base path (outermost terms) of the inode whose field fld the value is read from
	fieldBase := func(v ssa.Value, env *an.IPEnv, fld *types.Var) (string, bool) {
		rs := an.IPRoots(v, env, nil)
		if len(rs) == 0 {
			return "", false
		}
		res := ""
		for _, r := range rs {
			u, ok := r.V.(*ssa.UnOp)
			if !ok || u.Op != token.MUL {
				return "", false
			}
			f, b := an.FieldOf(u.X)
			if f != fld {
				return "", false
			}
			bp := an.IPPath(b, r.Env)
			if res != "" && res != bp {
				return "", false
			}
			res = bp
		}
		return res, true
	}
	nUp := 0
	upCalls := map[*ssa.Function][]ssa.Instruction{}
	for _, fn := range fns {
		for _, up := range an.Calls(fn, upM) {
			nUp++
			upCalls[fn] = append(upCalls[fn], up)
			name := c20KeyName(fn)
			nm, nd := c19ChildLit(an.Args(up)[0])
			if nm == nil || nd == nil {
				// the child value is passed through as a whole (a parameter of a helper): judged at the call sites below
				nm, nd = an.Args(up)[0], an.Args(up)[0]
			}
			okAll, addedAll, how := true, true, ""
			pbS, nbS := "", ""
			for _, env := range c19Contexts(fns, fn, an.Recv(up), nm, nd) {
				// when entered through a call site the child literal may live in the caller
				cnm, cnd := nm, nd
				if cnm == cnd {
					for _, r := range an.IPRoots(nm, env, nil) {
						if a, b := c19ChildLit(r.V); a != nil && b != nil {
							cnm, cnd = a, b
							env = r.Env
						}
					}
				}
				pb, okP := fieldBase(an.Recv(up), env, fParent)
				if cnm == nm {
					// same environment as the receiver
				}
				nb, okN := fieldBase(cnm, env, fName)
				if nm != cnm {
					// literal found in the caller: the receiver has to be resolved from the helper's context
					for _, e2 := range c19Contexts(fns, fn, an.Recv(up)) {
						pb, okP = fieldBase(an.Recv(up), e2, fParent)
					}
				}
				pbS, nbS = pb, nb
				if !(okP && okN && pb == nb) {
					okAll = false
				}
				// node added to the DAG service: top function of this context
				top := fn
				var upOuter ssa.Instruction = up
				for e := env; e != nil; e = e.Up {
					top = e.Call.Parent()
					upOuter = e.Call
				}
				added := false
				copyThrough := &an.FlowOpts{Through: func(call *ssa.Call) ([]ssa.Value, bool) {
					if ci := an.Callee(call); ci.Name == "Copy" && an.Recv(call) != nil {
						return []ssa.Value{an.Recv(call)}, true
					}
					return nil, false
				}}
				ndRoots := an.IPRoots(c19StripIface(cnd), env, copyThrough)
				for _, r := range ndRoots {
					rv := c19StripIface(r.V)
					var call *ssa.Call
					switch x := rv.(type) {
					case *ssa.Call:
						call = x
					case *ssa.Extract:
						call, _ = x.Tuple.(*ssa.Call)
					}
					if call != nil && c19AddsItsResult(an.Callee(call).Static) {
						added, how = true, "returned by "+an.Callee(call).String()+" which adds it"
					}
				}
				if !added {
					for _, a := range an.IPInner(top, nil, isAdd) {
						oc, ok := a.Outer().(ssa.CallInstruction)
						if !ok || !an.OnNilEdgeOf(top, oc, upOuter) {
							continue
						}
						arg := c19StripIface(an.Args(a.In.(ssa.CallInstruction))[1])
						for _, ar := range an.IPRoots(arg, a.Env, copyThrough) {
							for _, r := range ndRoots {
								if c19StripIface(ar.V) == c19StripIface(r.V) {
									added, how = true, "added by DAGService.Add on the nil-error edge"
								}
							}
						}
						if !added && env == nil && a.Env == nil && c19SameNode(fn, c19StripIface(cnd), arg) {
							added, how = true, "added by DAGService.Add on the nil-error edge"
						}
					}
				}
				if !added {
					addedAll = false
				}
			}
			c.Check(okAll, "O3", "R-FLOW", name, "child.Name=own-name,to-own-parent", up.Pos(),
				"the update is sent to x.parent with Name = x.name of the same inode x ("+pbS+")",
				fmt.Sprintf("updateChildEntry is called on the parent of %q with the name of %q: the parent updates the wrong entry, the change never shows up under this inode's name", pbS, nbS))
			c.Check(addedAll, "O3", "R-FLOW", name, "child.Node-added-to-dagservice", up.Pos(),
				"the propagated node is "+how,
				"the node handed to the parent was not (successfully) added to the DAG service before the call: the parent links a block that may not exist")
		}
	}
	c.Min("O3 upward child-update calls", nUp, 1)

	// the conditional propagator: the function that tests inode.unlinked before
	// going up (flushUp, or a helper extracted from it)
	fUnl := p.Field(pk, c19MfsNames(c).Inode, c19MfsNames(c).InUnlinked)
	isUnlLoad := func(call ssa.CallInstruction) bool {
		if !an.M("sync/atomic", "Bool", "Load").Match(an.Callee(call)) {
			return false
		}
		fa, ok := an.Recv(call).(*ssa.FieldAddr)
		if !ok {
			return false
		}
		f, _ := an.FieldOf(fa)
		return f == fUnl
	}
	conditional := map[*ssa.Function]bool{}
	condUps := map[*ssa.Function][]ssa.Instruction{}
	isUpCall := func(in ssa.Instruction, env *an.IPEnv) bool {
		call, ok := in.(ssa.CallInstruction)
		return ok && upM.Match(an.Callee(call))
	}
	for _, fn := range fns {
		tests := false
		for _, call := range an.AllCalls(fn) {
			if isUnlLoad(call) {
				tests = true
			}
		}
		if !tests {
			continue
		}
		if ups := an.IPSites(fn, nil, false, isUpCall); len(ups) > 0 {
			conditional[fn] = true
			condUps[fn] = ups
		}
	}
	// reached on every non-error path, in every function that propagates upward unconditionally
	nProp := 0
	for _, fn := range fns {
		ups := upCalls[fn]
		if len(ups) == 0 || conditional[fn] {
			continue
		}
		nProp++
		blocked := map[ssa.Instruction]bool{}
		for _, u := range ups {
			blocked[u] = true
		}
		ok := true
		var at token.Pos = fn.Pos()
		for _, r := range an.Returns(fn) {
			if !an.Reaches(fn, nil, r, nil, blocked) {
				continue
			}
			if an.ReturnErrKind(fn, r) != an.ErrKindNonNil {
				ok, at = false, r.Pos()
			}
		}
		c.Check(ok, "O3", "R-POST", c20KeyName(fn), "success=>propagated", at,
			"every return that is not an error return lies behind parent.updateChildEntry",
			c20KeyName(fn)+" can return success without calling parent.updateChildEntry: the change stays local and is missing from the flushed root")
	}
	c.Min("O3 unconditionally propagating functions", nProp, 1)
	// conditional propagators: from entry (or, where the file's node is replaced
	// in the same function, from that store) every path reaches the upward call
	// unless a boolean parameter (fullSync) is false or the file is unlinked
	fNode := p.Field(pk, "File", c19MfsNames(c).FileNode)
	nCond := 0
	for fn := range conditional {
		nCond++
		var unl []ssa.Value
		for _, l := range an.AllCalls(fn) {
			if isUnlLoad(l) {
				if v := an.CallValue(l); v != nil {
					unl = append(unl, v)
				}
			}
		}
		var flags []ssa.Value
		for _, prm := range fn.Params {
			if b, ok := prm.Type().Underlying().(*types.Basic); ok && b.Kind() == types.Bool {
				flags = append(flags, prm)
			}
		}
		cut := an.BoolEdges(fn, flags, false).Union(an.BoolEdges(fn, unl, true))
		blocked := map[ssa.Instruction]bool{}
		for _, u := range condUps[fn] {
			blocked[u] = true
		}
		var from []ssa.Instruction
		for _, st := range an.IPSites(fn, nil, false, func(in ssa.Instruction, env *an.IPEnv) bool {
			st, ok := in.(*ssa.Store)
			if !ok {
				return false
			}
			f, _ := an.FieldOf(st.Addr)
			return f == fNode
		}) {
			from = append(from, st)
		}
		good := true
		at := fn.Pos()
		if len(from) == 0 {
			for _, r := range an.Returns(fn) {
				if an.ReturnErrKind(fn, r) != an.ErrKindNonNil && an.Reaches(fn, nil, r, cut, blocked) {
					good, at = false, r.Pos()
				}
			}
		}
		for _, st := range from {
			if r := an.ReachesAnyReturn(fn, st, cut, blocked); r != nil && an.ReturnErrKind(fn, r) != an.ErrKindNonNil {
				good, at = false, st.Pos()
			}
		}
		c.Check(good, "O3", "R-POST", c20KeyName(fn), "fullSync&&linked=>propagated", at,
			"after the file's node is replaced, every path with fullSync set and the file linked calls parent.updateChildEntry",
			c20KeyName(fn)+" can return success without updating the parent although fullSync is set and the file is linked: Flush/Close acknowledge data that is missing from the directory")
		// and a function that replaces File.node and delegates the conditional propagation to fn calls it afterwards on every path
	}
	c.Min("O3 conditional propagators (unlinked test)", nCond, 1)
	for _, g := range fns {
		if conditional[g] {
			continue
		}
		stores := an.FieldStores(g, fNode)
		var calls []ssa.Instruction
		for _, call := range an.AllCalls(g) {
			if h := an.Callee(call).Static; h != nil && conditional[h] {
				calls = append(calls, call)
			}
		}
		if len(stores) == 0 || len(calls) == 0 {
			continue
		}
		blocked := map[ssa.Instruction]bool{}
		for _, cl := range calls {
			blocked[cl] = true
		}
		for _, st := range stores {
			r := an.ReachesAnyReturn(g, st, nil, blocked)
			c.Check(r == nil || an.ReturnErrKind(g, r) == an.ErrKindNonNil, "O3", "R-POST", c20KeyName(g), "node-replaced=>conditional-propagation", st.Pos(),
				"after the file's node is replaced the conditional propagation helper runs on every path",
				c20KeyName(g)+" replaces the file's node and can return without running the propagation step")
		}
	}
	// Root hands the CID to the republisher
	if ru := p.Func(pk, "Root", c19MfsNames(c).UpMethod); c.Need(ru != nil, "Root method implementing the parent interface's child update") {
		fRepub := p.Field(pk, "Root", c19MfsNames(c).RootRepub)
		isUpd := func(in ssa.Instruction, env *an.IPEnv) bool {
			call, ok := in.(ssa.CallInstruction)
			return ok && an.M(pk, "Republisher", "Update").Match(an.Callee(call))
		}
		noRepub := func(g *ssa.Function) an.EdgeSet {
			var rl []ssa.Value
			for _, l := range an.FieldReads(g, fRepub) {
				rl = append(rl, l)
			}
			return an.NilEdges(g, rl, true)
		}
		upd := an.IPSitesExcused(ru, nil, isUpd, noRepub)
		inner := an.IPInner(ru, nil, isUpd)
		if c.Need(fRepub != nil && len(inner) > 0, "Root.repub, Republisher.Update reached from Root.updateChildEntry") {
			blocked := map[ssa.Instruction]bool{}
			for _, u := range upd {
				blocked[u] = true
			}
			ok := true
			at := ru.Pos()
			for _, r := range an.Returns(ru) {
				if an.ReturnErrKind(ru, r) == an.ErrKindNonNil {
					continue
				}
				if an.Reaches(ru, nil, r, noRepub(ru), blocked) {
					ok, at = false, r.Pos()
				}
			}
			c.Check(ok, "O3", "R-POST", c20KeyName(ru), "success=>repub.Update", at,
				"every success return with a republisher configured passes repub.Update",
				"Root.updateChildEntry can succeed without telling the republisher: the new root is never published")
			for _, ui := range inner {
				u := ui.In.(ssa.CallInstruction)
				cidCall, isCid := an.IsCallTo(an.Args(u)[0], an.M("github.com/ipfs/go-ipld-format", "Node", "Cid"))
				okArg := false
				if isCid {
					rs := an.IPRoots(an.Recv(cidCall), ui.Env, nil)
					okArg = len(rs) > 0
					for _, r := range rs {
						if r.Env != nil || !c19IsParamField(r.V, ru.Params[1], "Node") {
							okArg = false
						}
					}
				}
				c.Check(okArg, "O3", "R-FLOW", c20KeyName(ru), "repub.Update(c.Node.Cid())", ui.Outer().Pos(),
					"the republisher receives the CID of the updated root node", "the republisher does not receive c.Node.Cid() of the child passed in: a stale or unrelated root would be published")
			}
		}
	}
}

// c19SameNode: v is the node `arg`, or a load of a field into which `arg` was
// stored earlier in fn (fi.node after fi.node = nd).
func c19SameNode(fn *ssa.Function, v, arg ssa.Value) bool {
	if an.SameObj(v, arg) {
		return true
	}
	for _, r := range an.Roots(v, nil) {
		r = c19StripIface(r)
		if an.SameObj(r, arg) {
			continue
		}
		u, ok := r.(*ssa.UnOp)
		if !ok || u.Op != token.MUL {
			return false
		}
		f, b := an.FieldOf(u.X)
		if f == nil {
			return false
		}
		found := false
		for _, st := range an.StoresToField(fn, f, b) {
			if an.SameObj(c19StripIface(st.Val), arg) && an.Dominates(st, u) {
				found = true
			}
		}
		if !found {
			return false
		}
	}
	return true
}

// ---------------------------------------------------------------- O4

func c19Settings(c *an.Ctx, pk string, fns []*ssa.Function) {
	p := c.P
	settings := []string{"MaxLinks", "MaxHAMTFanout", "HAMTShardingSize", "SizeEstimationMode"}
	isSetting := func(x string) bool {
		for _, s := range settings {
			if s == x {
				return true
			}
		}
		return false
	}
	onDir := func(ci an.CallInfo) bool {
		return strings.HasSuffix(ci.Pkg, c19uio) && (ci.Recv == "Directory" || ci.Recv == "DynamicDirectory" || ci.Recv == "BasicDirectory" || ci.Recv == "HAMTDirectory")
	}
	// copy sites: SetX(<GetY() of another directory>)
	nSites := 0
	for _, fn := range fns {
		copied := map[string]string{} // X -> Y
		var pos token.Pos
		srcs, dsts := map[string]bool{}, map[string]bool{}
		for _, call := range an.AllCalls(fn) {
			ci := an.Callee(call)
			if !onDir(ci) || !strings.HasPrefix(ci.Name, "Set") || len(an.Args(call)) != 1 {
				continue
			}
			x := strings.TrimPrefix(ci.Name, "Set")
			for _, r := range an.Roots(an.Args(call)[0], nil) {
				g, ok := r.(*ssa.Call)
				if !ok {
					continue
				}
				gi := an.Callee(g)
				if onDir(gi) && strings.HasPrefix(gi.Name, "Get") {
					copied[x] = strings.TrimPrefix(gi.Name, "Get")
					pos = call.Pos()
					srcs[an.XPath(an.Recv(g))] = true
					dsts[an.XPath(an.Recv(call))] = true
				}
			}
		}
		if len(copied) == 0 {
			continue
		}
		nSites++
		name := c20KeyName(fn)
		var missing, crossed []string
		for _, s := range settings {
			y, ok := copied[s]
			if !ok {
				missing = append(missing, s)
			} else if y != s {
				crossed = append(crossed, "Set"+s+"(Get"+y+"())")
			}
		}
		for x, y := range copied {
			if !isSetting(x) && x != y {
				crossed = append(crossed, "Set"+x+"(Get"+y+"())")
			}
		}
		sort.Strings(crossed)
		c.Check(len(missing) == 0, "O4", "R-SIB", name, "carries-over-all-unpersisted-settings", pos,
			"the new directory object receives MaxLinks, MaxHAMTFanout, HAMTShardingSize and SizeEstimationMode of the old/parent one",
			"the directory object created here does not receive "+strings.Join(missing, ", ")+" from the old/parent directory while the sibling sites copy it: the setting silently falls back to the global default (different sharding threshold => different DAG)")
		c.Check(len(crossed) == 0, "O4", "R-FLOW", name, "each-setting-from-its-own-getter", pos,
			"every SetX takes GetX of the same setting", "setting copied from the wrong getter: "+strings.Join(crossed, ", "))
		c.Check(len(srcs) == 1 && len(dsts) == 1, "O4", "R-FLOW", name, "one-source-one-target", pos,
			"all settings are read from one directory and written to one directory",
			fmt.Sprintf("settings are copied between %d source and %d target directory objects in one function: some setting goes to/comes from the wrong object", len(srcs), len(dsts)))
	}
	c.Min("O4 copy sites (SetX(GetX()))", nSites, 1)

	// option table: options field <-> setting
	optT := p.Named(pk, c19MfsNames(c).Options)
	if !c.Need(optT != nil, "mfs.options") {
		return
	}
	ost := optT.Underlying().(*types.Struct)
	fieldFor := map[string]*types.Var{}
	all := append([]string{"CidBuilder"}, settings...)
	for _, s := range all {
		// role: the options field written by the exported option constructor With<Setting>
		if w := p.Func(pk, "", "With"+s); w != nil {
			for _, g := range an.WithClosures(w) {
				for i := 0; i < ost.NumFields(); i++ {
					if len(an.FieldStores(g, ost.Field(i))) > 0 {
						fieldFor[s] = ost.Field(i)
					}
				}
			}
		}
		c.Need(fieldFor[s] != nil, "options field for setting "+s)
	}
	// fillFrom: o.x = d.unixfsDir.GetX()
	// role: the options method that takes a *Directory and fills option fields from its getters
	var ff *ssa.Function
	for _, fn := range p.Methods(pk, c19MfsNames(c).Options) {
		takesDir := false
		for _, prm := range fn.Params[1:] {
			if an.TypeIs(prm.Type(), pk, "Directory") {
				takesDir = true
			}
		}
		storesOpt := false
		for _, f := range fieldFor {
			if f != nil && len(an.FieldStores(fn, f)) > 0 {
				storesOpt = true
			}
		}
		if takesDir && storesOpt && (ff == nil) {
			ff = fn
		}
	}
	if c.Need(ff != nil, "options method that inherits settings from a *Directory (fillFrom)") {
		for _, s := range all {
			f := fieldFor[s]
			if f == nil {
				continue
			}
			ok := false
			var sts []*ssa.Store
			for _, g := range an.IPClosure(ff) {
				if g.Pkg == ff.Pkg {
					sts = append(sts, an.FieldStores(g, f)...)
				}
			}
			for _, st := range sts {
				v := st.Val
				// sizeEstimationMode is a pointer to a local holding the getter result
				for _, r := range an.Roots(v, nil) {
					if a, isA := r.(*ssa.Alloc); isA && a.Referrers() != nil {
						for _, rr := range *a.Referrers() {
							if s2, isS := rr.(*ssa.Store); isS && s2.Addr == a {
								r = s2.Val
							}
						}
					}
					r = c19StripIface(r)
					if g, isC := r.(*ssa.Call); isC {
						gi := an.Callee(g)
						if onDir(gi) && gi.Name == "Get"+s {
							ok = true
						}
					}
				}
			}
			c.Check(ok, "O4", "R-TABLE", c20KeyName(ff), "inherit:"+s, ff.Pos(),
				"unset option "+f.Name()+" is filled from the parent's Get"+s+"()",
				"options.fillFrom does not inherit "+s+" from the parent directory (field "+f.Name()+"): a child directory created by Mkdir uses the global default instead of the parent's setting")
		}
	}
	// appliers: newEmptyDirectory and NewRoot use every option
	for _, spec := range []struct {
		fn   *ssa.Function
		what string
		set  []string
	}{
		{c19NewDirFn(c, pk), "empty-directory builder", all},
		{p.Func(pk, "", "NewRoot"), "NewRoot", all},
	} {
		if !c.Need(spec.fn != nil, "mfs."+spec.what) {
			continue
		}
		for _, s := range spec.set {
			f := fieldFor[s]
			if f == nil {
				continue
			}
			ok := false
			var allCalls []ssa.CallInstruction
			for _, g := range an.IPClosure(spec.fn) {
				if g == spec.fn || (g.Pkg != nil && g.Pkg == spec.fn.Pkg) {
					allCalls = append(allCalls, an.AllCalls(g)...)
				}
			}
			for _, call := range allCalls {
				ci := an.Callee(call)
				if !strings.HasSuffix(ci.Pkg, c19uio) || (ci.Name != "With"+s && ci.Name != "Set"+s) {
					continue
				}
				args := call.Common().Args
				if len(args) == 0 {
					continue
				}
				for _, r := range an.Roots(args[len(args)-1], nil) {
					if u, isU := r.(*ssa.UnOp); isU && u.Op == token.MUL {
						// o.x, or *o.x for the pointer-typed option
						x := u.X
						if u2, isU2 := x.(*ssa.UnOp); isU2 && u2.Op == token.MUL {
							x = u2.X
						}
						if ff, _ := an.FieldOf(x); ff == f {
							ok = true
						}
					}
					if fv, isF := r.(*ssa.Field); isF {
						if ff, _ := an.FieldOf(fv); ff == f {
							ok = true
						}
					}
				}
			}
			c.Check(ok, "O4", "R-TABLE", c20KeyName(spec.fn), "apply:"+s, spec.fn.Pos(),
				"option "+f.Name()+" is applied to the created/loaded directory (With"+s+"/Set"+s+")",
				spec.what+" does not apply option "+f.Name()+" ("+s+") to the directory it creates/loads: the configured value is ignored")
		}
	}
}

// c19IsParamField: v is a read of field `field` of the (struct-valued)
// parameter prm, directly or through the cell the parameter is spilled to.
func c19IsParamField(v ssa.Value, prm *ssa.Parameter, field string) bool {
	switch x := v.(type) {
	case *ssa.Field:
		f, b := an.FieldOf(x)
		return f != nil && f.Name() == field && b == ssa.Value(prm)
	case *ssa.UnOp:
		if x.Op != token.MUL {
			return false
		}
		f, b := an.FieldOf(x.X)
		if f == nil || f.Name() != field {
			return false
		}
		a, ok := b.(*ssa.Alloc)
		if !ok || a.Referrers() == nil {
			return false
		}
		n := 0
		good := false
		for _, r := range *a.Referrers() {
			if st, ok := r.(*ssa.Store); ok && st.Addr == a {
				n++
				good = st.Val == ssa.Value(prm)
			}
		}
		return n == 1 && good
	}
	return false
}

// ---------------------------------------------------------------- O6

func c19Cache(c *an.Ctx, pk string, fns []*ssa.Function) {
	p := c.P
	fCache, fUfs := p.Field(pk, "Directory", c19MfsNames(c).DirCache), p.Field(pk, "Directory", c19MfsNames(c).DirUfs)
	if !c.Need(fCache != nil && fUfs != nil, "Directory.entriesCache, Directory.unixfsDir") {
		return
	}
	// (a) every FSNode a Directory method hands out (result type FSNode, nil
	// error) either comes out of entriesCache or was put into it, under a name
	// parameter, before the return — looking through helpers
	isCacheUpd := func(in ssa.Instruction, env *an.IPEnv) bool {
		mu, ok := in.(*ssa.MapUpdate)
		if !ok {
			return false
		}
		u, ok := mu.Map.(*ssa.UnOp)
		if !ok {
			return false
		}
		f, _ := an.FieldOf(u.X)
		return f == fCache
	}
	rootSet := func(v ssa.Value, env *an.IPEnv) map[ssa.Value]bool {
		m := map[ssa.Value]bool{}
		for _, r := range an.IPRoots(v, env, nil) {
			m[c19StripIface(r.V)] = true
		}
		return m
	}
	nA := 0
	for _, fn := range p.Methods(pk, "Directory") {
		res := fn.Signature.Results()
		if res.Len() != 2 || !an.TypeIs(res.At(0).Type(), pk, "FSNode") {
			continue
		}
		upds := an.IPInner(fn, nil, isCacheUpd)
		for _, r := range an.Returns(fn) {
			if an.ReturnErrKind(fn, r) == an.ErrKindNonNil || an.IsNilConst(r.Results[0]) || !an.Reaches(fn, nil, r, nil, nil) {
				continue
			}
			ok := true
			checked := false
			for _, root := range an.IPRoots(c19StripIface(r.Results[0]), nil, nil) {
				rv := c19StripIface(root.V)
				if an.IsNilConst(rv) {
					continue
				}
				// out of the cache
				var lk *ssa.Lookup
				switch x := rv.(type) {
				case *ssa.Lookup:
					lk = x
				case *ssa.Extract:
					lk, _ = x.Tuple.(*ssa.Lookup)
				}
				if lk != nil {
					if u, isU := lk.X.(*ssa.UnOp); isU {
						if f, _ := an.FieldOf(u.X); f == fCache {
							continue
						}
					}
				}
				if prm, isP := rv.(*ssa.Parameter); isP && prm.Parent() == fn {
					continue // handed in by the caller
				}
				checked = true
				cached := false
				for _, ui := range upds {
					mu := ui.In.(*ssa.MapUpdate)
					if !rootSet(mu.Value, ui.Env)[rv] || !an.Dominates(ui.Outer(), r) {
						continue
					}
					for _, kr := range an.IPRoots(mu.Key, ui.Env, nil) {
						if kp, isP := kr.V.(*ssa.Parameter); isP && kp.Parent() == fn {
							cached = true
						}
					}
				}
				if !cached {
					ok = false
				}
			}
			if !checked {
				continue
			}
			nA++
			c.Check(ok, "O6", "R-PAIR", c20KeyName(fn), "returned-child-is-cached", r.Pos(),
				"the FSNode handed out is the object stored in entriesCache under the looked-up name",
				"an FSNode is handed out without being cached under the looked-up name (or another object is cached): the next lookup builds a second File/Directory object for the same entry, and changes made through one of them (unflushed descriptors, non-sync closes) never reach the directory node")
		}
	}
	c.Min("O6 success returns handing out freshly built children", nA, 1)

	// (b) the directory's node is produced after the cached children were synced
	nB := 0
	for _, fn := range p.Methods(pk, "Directory") {
		for _, call := range an.Calls(fn, an.M(c19uio, "Directory", "GetNode")) {
			u, ok := an.Recv(call).(*ssa.UnOp)
			if !ok {
				continue
			}
			if f, b := an.FieldOf(u.X); f != fUfs || b != ssa.Value(fn.Params[0]) {
				continue
			}
			// only functions that hand the node out (return it, possibly copied), not localUpdate-style updates of one entry
			if len(an.Calls(fn, an.M(c19uio, "Directory", "AddChild"))) > 0 {
				continue
			}
			nB++
			ok = an.IPGuarded(fns, call, func(g *ssa.Function, site ssa.Instruction) bool {
				for _, s := range an.AllCalls(g) {
					h := an.Callee(s).Static
					if h == nil || !c19RangesCache(h, fCache) {
						continue
					}
					if an.SameObj(an.Recv(s), g.Params[0]) && an.OnNilEdgeOf(g, s, site) {
						return true
					}
				}
				return false
			})
			c.Check(ok, "O6", "R-DOM", c20KeyName(fn), "unixfsDir.GetNode<=cacheSync-ok", call.Pos(),
				"the directory node is taken only after cacheSync succeeded (cached children written into the UnixFS directory)",
				"the directory node is produced without (successfully) syncing the cached children first: children changed through non-propagating closes are missing from / stale in the node that is flushed and published")
		}
	}
	c.Min("O6 directory node producers", nB, 1)
	// cacheSync itself: every cache entry's current node is written under its own key
	var cs *ssa.Function
	for _, fn := range p.Methods(pk, "Directory") {
		ranges := false
		an.Instrs(fn, func(in ssa.Instruction) {
			if rg, ok := in.(*ssa.Range); ok {
				if u, ok := rg.X.(*ssa.UnOp); ok {
					if f, _ := an.FieldOf(u.X); f == fCache {
						ranges = true
					}
				}
			}
		})
		if ranges && len(an.Calls(fn, an.M(c19uio, "Directory", "AddChild"))) > 0 {
			cs = fn
		}
	}
	if c.Need(cs != nil, "Directory method that ranges over entriesCache and links every entry (cacheSync)") {
		n := 0
		for _, add := range an.Calls(cs, an.M(c19uio, "Directory", "AddChild")) {
			n++
			args := an.Args(add)
			gn, isGN := an.IsCallTo(args[2], an.M(pk, "FSNode", "GetNode"))
			okSrc := false
			if isGN {
				// name and entry come from the same iteration of a range over entriesCache
				var nx ssa.Value
				if e, ok := an.Recv(gn).(*ssa.Extract); ok && e.Index == 2 {
					nx = e.Tuple
				}
				if e, ok := args[1].(*ssa.Extract); ok && e.Index == 1 && nx != nil && e.Tuple == nx {
					if next, ok := nx.(*ssa.Next); ok {
						if rg, ok := next.Iter.(*ssa.Range); ok {
							if u, ok := rg.X.(*ssa.UnOp); ok {
								if f, _ := an.FieldOf(u.X); f == fCache {
									okSrc = an.OnNilEdgeOf(cs, gn, add)
								}
							}
						}
					}
				}
			}
			c.Check(okSrc, "O6", "R-FLOW", c20KeyName(cs), "sync:entry.GetNode()->AddChild(name)", add.Pos(),
				"each cached child's current node is linked under the child's own cache key",
				"cacheSync does not link entry.GetNode() of each entriesCache entry under that entry's key: cached children are flushed under a wrong name or with a stale node")
		}
		c.Min("O6 AddChild in cacheSync", n, 1)
		// ... in every iteration: the loop head is not reached again without
		// passing the AddChild (an entry that is skipped never reaches the UnixFS
		// directory and is missing from the flushed DAG)
		blockedAdd := map[ssa.Instruction]bool{}
		for _, add := range an.Calls(cs, an.M(c19uio, "Directory", "AddChild")) {
			blockedAdd[add] = true
		}
		an.Instrs(cs, func(in ssa.Instruction) {
			nx, ok := in.(*ssa.Next)
			if !ok {
				return
			}
			rg, ok := nx.Iter.(*ssa.Range)
			if !ok {
				return
			}
			u, ok := rg.X.(*ssa.UnOp)
			if !ok {
				return
			}
			if f, _ := an.FieldOf(u.X); f != fCache {
				return
			}
			c.Check(!an.Reaches(cs, nx, nx, nil, blockedAdd), "O6", "R-POST", c20KeyName(cs), "sync:every-entry-linked", nx.Pos(),
				"every iteration over entriesCache links the entry into the UnixFS directory (or returns an error)",
				"an iteration over entriesCache can go on to the next entry without linking the current one: a cached child that is skipped (e.g. a file closed without sync) never reaches the UnixFS directory — the flushed DAG does not contain what the tree shows")
		})
	}

	// (c) Directory.AddChild: node stored in the DAG service before it is linked
	if ac := p.Func(pk, "Directory", "AddChild"); c.Need(ac != nil && len(ac.Params) == 3, "Directory.AddChild(name, nd)") {
		for _, link := range an.Calls(ac, an.M(c19uio, "Directory", "AddChild")) {
			ok := false
			for _, a := range an.Calls(ac, c19AddM...) {
				if c19StripIface(an.Args(a)[1]) == ssa.Value(ac.Params[2]) && an.OnNilEdgeOf(ac, a, link) {
					ok = true
				}
			}
			nd := c19StripIface(an.Args(link)[2]) == ssa.Value(ac.Params[2]) && an.Args(link)[1] == ssa.Value(ac.Params[1])
			c.Check(ok && nd, "O6", "R-DOM", c20KeyName(ac), "link<=dagService.Add(nd)-ok", link.Pos(),
				"the node is stored in the DAG service (nil-error edge) before it is linked under the given name",
				"Directory.AddChild links a node that was not (successfully) added to the DAG service, or links another node/name than the one passed in: the flushed directory references a missing block / the entry is wrong")
		}
	}
}

// c19RangesCache: fn ranges over Directory.entriesCache and links entries (the cache sync step).
func c19RangesCache(fn *ssa.Function, fCache *types.Var) bool {
	if fn == nil || fn.Blocks == nil {
		return false
	}
	ranges := false
	an.Instrs(fn, func(in ssa.Instruction) {
		if rg, ok := in.(*ssa.Range); ok {
			if u, ok := rg.X.(*ssa.UnOp); ok {
				if f, _ := an.FieldOf(u.X); f == fCache {
					ranges = true
				}
			}
		}
	})
	return ranges && len(an.Calls(fn, an.M(c19uio, "Directory", "AddChild"))) > 0
}

// c19NewDirFn: the package function that builds an empty directory from
// options (role: calls uio.NewDirectory).
func c19NewDirFn(c *an.Ctx, pk string) *ssa.Function {
	var found *ssa.Function
	for _, fn := range c.P.PkgFuncs(pk) {
		if fn.Parent() != nil || fn.Signature.Recv() != nil {
			continue
		}
		if len(an.Calls(fn, an.M(c19uio, "", "NewDirectory"))) > 0 {
			if found == nil {
				found = fn
			}
		}
	}
	return found
}

// c19PassesParam: some result of h is (on some return) one of h's own parameters.
func c19PassesParam(h *ssa.Function) bool {
	if h == nil || h.Blocks == nil {
		return false
	}
	for _, r := range an.Returns(h) {
		for _, res := range r.Results {
			for _, root := range an.Roots(res, nil) {
				if p, ok := root.(*ssa.Parameter); ok && p.Parent() == h {
					return true
				}
			}
		}
	}
	return false
}

// c19RedirectKeepsName walks the merge points that define the destination
// directory dirV and the destination name nameV of an AddChild. Wherever the
// directory is replaced by a value type-asserted to *Directory (the looked-up
// destination entry is a directory), the name arriving over the same edge must
// be the source name src. Helpers returning (dir, name, ...) are entered.
// Returns the number of redirect sites found and the descriptions of bad ones.
func c19RedirectKeepsName(g *ssa.Function, dirV, nameV, src ssa.Value, pk string, depth int) (int, []string, token.Pos) {
	n := 0
	var bad []string
	at := token.NoPos
	if depth > 4 || src == nil {
		return 0, nil, at
	}
	isDirAssert := func(v ssa.Value) bool {
		if e, ok := v.(*ssa.Extract); ok {
			v = e.Tuple
		}
		ta, ok := v.(*ssa.TypeAssert)
		if !ok {
			return false
		}
		_, isPtr := ta.AssertedType.(*types.Pointer)
		return isPtr && an.TypeIs(ta.AssertedType, pk, "Directory")
	}
	seen := map[*ssa.Phi]bool{}
	var walk func(d, nm ssa.Value)
	walk = func(d, nm ssa.Value) {
		// through a helper that returns the destination pair
		if de, ok := d.(*ssa.Extract); ok {
			if ne, ok := nm.(*ssa.Extract); ok && ne.Tuple == de.Tuple {
				if call, ok := de.Tuple.(*ssa.Call); ok {
					h := an.Callee(call).Static
					if h != nil && h.Blocks != nil && h.Pkg == g.Pkg {
						var srcH ssa.Value
						for i, arg := range call.Call.Args {
							if i < len(h.Params) && an.SameObj(arg, src) {
								srcH = h.Params[i]
							}
						}
						if srcH != nil {
							for _, r := range an.Returns(h) {
								if de.Index < len(r.Results) && ne.Index < len(r.Results) {
									k, b, p := c19RedirectKeepsName(h, r.Results[de.Index], r.Results[ne.Index], srcH, pk, depth+1)
									n += k
									bad = append(bad, b...)
									if p != token.NoPos {
										at = p
									}
								}
							}
						}
					}
				}
			}
			return
		}
		ph, ok := d.(*ssa.Phi)
		if !ok || seen[ph] {
			return
		}
		seen[ph] = true
		var nph *ssa.Phi
		if x, ok := nm.(*ssa.Phi); ok && x.Block() == ph.Block() {
			nph = x
		}
		for i, e := range ph.Edges {
			ne := nm
			if nph != nil {
				ne = nph.Edges[i]
			}
			if isDirAssert(e) {
				n++
				if !an.SameObj(ne, src) {
					bad = append(bad, "the name arriving with the redirected directory is not the source entry name")
					at = ph.Pos()
				}
				continue
			}
			walk(e, ne)
		}
	}
	walk(dirV, nameV)
	return n, c20Uniq(bad), at
}
