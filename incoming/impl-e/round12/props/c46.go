package props

import (
	"fmt"
	"go/constant"
	"go/token"
	"go/types"
	"strings"

	"golang.org/x/tools/go/ssa"

	"verif/checker/an"
)

func init() {
	register("C46", Prop{
		Pkgs: []string{"./peering"},
		Explain: "Decided (structural necessary conditions of 'peering reconnects only while it should'): " +
			"O1 typestate of peerHandler.reconnectTimer: a timer is created (time.AfterFunc stored into reconnectTimer) only under ph.mu and only where the handler was tested not stopped under the same critical section (ph.ctx.Err() == nil, or a stopped flag set by stop() under ph.mu); the timer is re-armed (Reset) only under ph.mu where reconnectTimer was tested non-nil in the same critical section; the permanent stop cancels the context before it takes ph.mu, and under ph.mu stops the timer and sets it to nil; " +
			"O2 reconnectTimer and nextDelay are only accessed with ph.mu held (callers' locks counted for unexported helpers), addrs with ph.mu held or, for reads, with the service lock held, and addrs is only written by functions called with the service lock write-held; PeeringService.{peers,state} only under ps.mu (writes in write mode); " +
			"O6 reconnectTimer, nextDelay and ps.state are tested/read and replaced inside one critical section (no unlock/relock window between the test and the store); " +
			"O3 backoff: initialDelay > 0, 0 < maxBackoff <= 10 min, 0 < maxBackoffJitter < 100; nextBackoff returns ph.nextDelay after clamping it to maxBackoff on the '>' edge and only subtracting a bounded random afterwards; every other store to nextDelay is the constant initialDelay; the delay of AfterFunc/Reset is the result of ph.nextBackoff() of the same handler; " +
			"O4 service level: a handler is stopped before it is deleted from ps.peers; the function that sets StateStopped stops every handler of ps.peers first; goroutines that may arm a timer are started from state-reading service methods only where the state is not StateStopped; a handler created while the service is stopped is cancelled at birth and not started. " +
			"O5 keeps reconnecting while it should: outside stop() the timer is cleared only where the peer was found Connected; Disconnected notifications start an arming goroutine for the handler of the conn's remote peer; Start registers the notifee before it reports running and Stop unregisters it; reconnect dials with the handler's own context (cancelled by stop) and the handler's peer id; " +
			"Round 12 additions: O4 the function that stores StateRunning (under ps.mu) ranges over ps.peers and starts the arming goroutine in every iteration; a missing store of StateStopped/StateRunning is a violation (not a vacuity problem); O5 reconnectTimer is set to nil only after Timer.Stop on it (converse of Stop=>nil); the stop role falls back to the handler method called where the service deletes from ps.peers, so a stop() without cancel is reported by O1 cancel-before-lock. " +
			"NOT decided: interleavings as such, behaviour of libp2p's Connect/Notify, a dial already in flight when stop() runs.",
		Assume:    []string{"context.Context.Err() is non-nil after cancel() returned", "time.AfterFunc callbacks run on their own goroutine", "unexported fields of package peering are only reachable inside it"},
		Technique: "typestate via R-DOM on condition edges inside a critical section (inter-procedural lock-state dataflow, caller-holds summaries), R-GUARD, R-CONST + R-CMP on the clamp edge, R-FLOW on timer delays, R-PAIR/R-DOM on service bookkeeping",
		Run:       runC46,
	})
}

func c46IsFieldLoad(v ssa.Value, fld *types.Var) (ssa.Value, bool) {
	u, ok := v.(*ssa.UnOp)
	if !ok || u.Op != token.MUL {
		return nil, false
	}
	f, b := an.FieldOf(u.X)
	if f != fld {
		return nil, false
	}
	return b, true
}

func runC46(c *an.Ctx) {
	const pk = "peering"
	p := c.P
	fns := p.PkgFuncs(pk)
	if !c.Need(len(fns) > 15, "functions of package peering") {
		return
	}
	c20KeyProg = p
	nm := c46PeeringNames(c)
	if len(nm.Problems) > 0 {
		c.Need(false, "peering roles: "+strings.Join(nm.Problems, "; "))
		return
	}
	fTimer, fDelay, fAddrs := p.Field(pk, nm.Handler, nm.HTimer), p.Field(pk, nm.Handler, nm.HDelay), p.Field(pk, nm.Handler, nm.HAddrs)
	fCtx, fCancel, fMu := p.Field(pk, nm.Handler, nm.HCtx), p.Field(pk, nm.Handler, nm.HCancel), p.Field(pk, nm.Handler, nm.HMu)
	fPeers, fState := p.Field(pk, "PeeringService", nm.SPeers), p.Field(pk, "PeeringService", nm.SState)
	if !c.Need(fTimer != nil && fDelay != nil && fAddrs != nil && fCtx != nil && fCancel != nil && fMu != nil && fPeers != nil && fState != nil,
		"handler fields (timer, delay, addrs, ctx, cancel, mutex), service fields (peers, state)") {
		return
	}
	ip := an.NewLockIP(p, fns)

	isNilTimerStore := func(in ssa.Instruction, env *an.IPEnv) bool {
		st, ok := in.(*ssa.Store)
		if !ok || !an.IsNilConst(st.Val) {
			return false
		}
		f, b := an.FieldOf(st.Addr)
		return f == fTimer && !an.IsFresh(b)
	}
	// ---- roles
	// the permanent stop: calls ph.cancel and stores nil into reconnectTimer (itself or through a helper)
	// role: the peerHandler method that cancels its own handler's context.
	// (That it also has to clear the timer is an obligation below, not part of
	// the role: a stop() that forgets it must be reported, not lose the anchor.)
	var stopFn *ssa.Function
	for _, fn := range p.Methods(pk, nm.Handler) {
		for _, call := range an.AllCalls(fn) {
			if b, ok := c46IsFieldLoad(call.Common().Value, fCancel); ok && b == ssa.Value(fn.Params[0]) {
				if stopFn == nil || len(an.IPSites(fn, nil, false, isNilTimerStore)) > 0 {
					stopFn = fn
				}
			}
		}
	}
	if stopFn == nil {
		// no handler method cancels its own context: fall back to the handler
		// method that the service calls where it deletes a handler from
		// ps.peers, so that a stop() that lost its cancel is reported (below)
		// instead of losing the anchor
		for _, fn := range fns {
			hasDelete := false
			for _, call := range an.AllCalls(fn) {
				if an.Callee(call).Builtin == "delete" && len(call.Common().Args) > 0 {
					if _, ok := c46IsFieldLoad(call.Common().Args[0], fPeers); ok {
						hasDelete = true
					}
				}
			}
			if !hasDelete {
				continue
			}
			for _, call := range an.AllCalls(fn) {
				if _, isCall := call.(*ssa.Call); !isCall {
					continue
				}
				tgt := an.Callee(call).Static
				if tgt != nil && tgt.Signature.Recv() != nil && len(tgt.Params) == 1 && an.TypeIs(tgt.Params[0].Type(), pk, nm.Handler) && tgt.Signature.Results().Len() == 0 {
					stopFn = tgt
				}
			}
		}
	}
	if !c.Need(stopFn != nil, "peerHandler method that cancels the handler's context (stop)") {
		return
	}
	// stopped flags: bool fields of peerHandler stored true in stop under mu
	var stopFlags []*types.Var
	if st, ok := p.Named(pk, nm.Handler).Underlying().(*types.Struct); ok {
		for i := 0; i < st.NumFields(); i++ {
			f := st.Field(i)
			if b, ok := f.Type().Underlying().(*types.Basic); !ok || b.Kind() != types.Bool {
				continue
			}
			for _, s := range an.FieldStores(stopFn, f) {
				if k, ok := an.ConstOf(s.Val); ok && k.String() == "true" {
					_, base := an.FieldOf(s.Addr)
					if ip.MustBefore(s)[an.XPath(base)+"."+fMu.Name()] == an.LWrite {
						stopFlags = append(stopFlags, f)
					}
				}
			}
		}
	}

	// ---------------------------------------------------------------- O1
	// notStopped: edges of fn on which handler `base` is known not stopped, with the tests that establish it
	notStopped := func(fn *ssa.Function, basePath string) (an.EdgeSet, []ssa.Instruction) {
		var vals []ssa.Value
		var tests []ssa.Instruction
		for _, call := range an.Calls(fn, an.M("context", "Context", "Err")) {
			if b, ok := c46IsFieldLoad(an.Recv(call), fCtx); ok && an.XPath(b) == basePath {
				if v := an.CallValue(call); v != nil {
					vals = append(vals, v)
					tests = append(tests, call)
				}
			}
		}
		edges := an.NilEdges(fn, vals, true)
		for _, f := range stopFlags {
			var fl []ssa.Value
			for _, l := range an.FieldReads(fn, f) {
				if u, ok := l.(*ssa.UnOp); ok {
					if _, b := an.FieldOf(u.X); an.XPath(b) == basePath {
						fl = append(fl, l)
						tests = append(tests, u)
					}
				}
			}
			edges = edges.Union(an.BoolEdges(fn, fl, false))
		}
		return edges, tests
	}
	// sameSection: mu (path) is held at every test and at the site and is not released in between
	sameSection := func(fn *ssa.Function, tests []ssa.Instruction, site ssa.Instruction, muPath string) bool {
		if ip.MustBefore(site)[muPath] != an.LWrite {
			return false
		}
		var rels []ssa.Instruction
		for _, call := range an.AllCalls(fn) {
			if _, isDefer := call.(*ssa.Defer); isDefer {
				continue
			}
			for _, op := range an.XSyncModel(call) {
				if !op.Acquire && op.Path == muPath {
					rels = append(rels, call)
				}
			}
		}
		for _, t := range tests {
			if !an.Reaches(fn, t, site, nil, nil) {
				continue
			}
			if ip.MustBefore(t)[muPath] != an.LWrite {
				return false
			}
			for _, r := range rels {
				if an.Reaches(fn, t, r, nil, nil) && an.Reaches(fn, r, site, nil, nil) {
					return false
				}
			}
		}
		return true
	}
	nCreate, nReset := 0, 0
	armers := map[*ssa.Function]bool{}
	for _, fn := range fns {
		name := c20KeyName(fn)
		// creation: reconnectTimer = time.AfterFunc(...)
		for _, st := range an.FieldStores(fn, fTimer) {
			_, base := an.FieldOf(st.Addr)
			if an.IsFresh(base) {
				continue
			}
			for _, r := range an.Roots(st.Val, nil) {
				call, ok := an.IsCallTo(r, an.M("time", "", "AfterFunc"), an.M("time", "", "NewTimer"))
				if !ok {
					continue
				}
				nCreate++
				armers[fn] = true
				bp := an.XPath(base)
				mu := bp + "." + fMu.Name()
				// judged where the not-stopped test is: in this function, or —
				// when the arming was extracted into a helper that is always
				// called with ph.mu held — at every call site of the helper
				guardedAt := func(g *ssa.Function, site ssa.Instruction) (bool, bool) {
					gbp := bp
					if g != fn {
						sc, ok := site.(ssa.CallInstruction)
						if !ok || an.Recv(sc) == nil {
							return false, false
						}
						gbp = an.XPath(an.Recv(sc))
					}
					gmu := gbp + "." + fMu.Name()
					edges, tests := notStopped(g, gbp)
					gd := len(edges) > 0 && an.GuardedBy(g, nil, site, edges)
					return gd, gd && sameSection(g, tests, site, gmu)
				}
				guarded := an.IPGuarded(fns, call, func(g *ssa.Function, s ssa.Instruction) bool { gd, _ := guardedAt(g, s); return gd })
				section := ip.MustBefore(st)[mu] == an.LWrite && an.IPGuarded(fns, call, func(g *ssa.Function, s ssa.Instruction) bool { _, sec := guardedAt(g, s); return sec })
				why := ""
				switch {
				case !guarded:
					why = "the timer is created without testing, on every path to it, that the handler was not stopped (ph.ctx.Err() == nil or a stopped flag)"
				case !section:
					why = "the not-stopped test and the creation of the timer are not inside one critical section of " + mu
				}
				c.Check(guarded && section, "O1", "R-DOM", name, "create-timer<=not-stopped", call.Pos(),
					"the reconnect timer is created under "+mu+" only where the handler was tested not stopped in the same critical section",
					why+": a goroutine started by Disconnected/Start/AddPeer that runs after stop() (Stop, RemovePeer) arms a new timer, and reconnect attempts continue for a stopped or removed peer")
				// delay
				c46Delay(c, pk, fn, call, call.Call.Args[0], base)
			}
		}
		// re-arm: reconnectTimer.Reset(d)
		for _, call := range an.Calls(fn, an.M("time", "Timer", "Reset")) {
			base, ok := c46IsFieldLoad(an.Recv(call), fTimer)
			if !ok {
				continue
			}
			nReset++
			armers[fn] = true
			bp := an.XPath(base)
			mu := bp + "." + fMu.Name()
			var loads []ssa.Value
			var tests []ssa.Instruction
			for _, l := range an.FieldReads(fn, fTimer) {
				if u, ok := l.(*ssa.UnOp); ok {
					if _, b := an.FieldOf(u.X); an.XPath(b) == bp {
						loads = append(loads, l)
						tests = append(tests, u)
					}
				}
			}
			_ = loads
			_ = tests
			resetOK := an.IPGuarded(fns, call, func(g *ssa.Function, site ssa.Instruction) bool {
				gbp := bp
				if g != fn {
					sc, ok := site.(ssa.CallInstruction)
					if !ok || an.Recv(sc) == nil {
						return false
					}
					gbp = an.XPath(an.Recv(sc))
				}
				gmu := gbp + "." + fMu.Name()
				var gl []ssa.Value
				var gt []ssa.Instruction
				for _, l := range an.FieldReads(g, fTimer) {
					if u, ok := l.(*ssa.UnOp); ok {
						if _, b := an.FieldOf(u.X); an.XPath(b) == gbp {
							gl = append(gl, l)
							gt = append(gt, u)
						}
					}
				}
				nonNil := an.NilEdges(g, gl, false)
				ns, nsTests := notStopped(g, gbp)
				if len(nonNil) > 0 && an.GuardedBy(g, nil, site, nonNil) && sameSection(g, gt, site, gmu) {
					return true
				}
				return len(ns) > 0 && an.GuardedBy(g, nil, site, ns) && sameSection(g, nsTests, site, gmu)
			})
			okNil, okNS := resetOK, false
			c.Check(okNil || okNS, "O1", "R-DOM", name, "reset-timer<=still-armed", call.Pos(),
				"the timer is re-armed under "+mu+" only where it was found non-nil (not cleared by stop()/connect) or the handler not stopped, in the same critical section",
				"reconnectTimer.Reset is reachable without a non-nil / not-stopped test in the same critical section of "+mu+": a timer cleared by stop() is re-armed (or a nil timer dereferenced) and reconnects continue after stop")
			if as := an.Args(call); len(as) == 1 {
				c46Delay(c, pk, fn, call, as[0], base)
			}
		}
	}
	c.Min("O1 timer creations", nCreate, 1)
	c.Min("O1 timer resets", nReset, 1)

	// stop discipline
	{
		name := c20KeyName(stopFn)
		var cancels, locks []ssa.Instruction
		for _, call := range an.AllCalls(stopFn) {
			if _, ok := c46IsFieldLoad(call.Common().Value, fCancel); ok {
				cancels = append(cancels, call)
			}
			for _, op := range an.XSyncModel(call) {
				if op.Acquire && strings.HasSuffix(op.Path, "."+fMu.Name()) {
					locks = append(locks, call)
				}
			}
		}
		okOrder := len(locks) > 0
		for _, l := range locks {
			if !an.MustPrecede(stopFn, l, cancels) {
				okOrder = false
			}
		}
		c.Check(okOrder, "O1", "R-DOM", name, "cancel-before-lock", stopFn.Pos(),
			"the context is cancelled before ph.mu is taken, so every critical section that starts after stop's sees the handler stopped",
			"stop() takes ph.mu (and clears the timer) before cancelling the context on some path: a concurrent startIfDisconnected can pass its not-stopped test after stop() released the lock and arm a timer nobody will stop")
		nilStores := an.IPInner(stopFn, nil, isNilTimerStore)
		for _, si := range nilStores {
			st := si.In.(*ssa.Store)
			k := st.Parent()
			_, base := an.FieldOf(st.Addr)
			mu := an.XPath(base) + "." + fMu.Name()
			var stops []ssa.Instruction
			for _, call := range an.Calls(k, an.M("time", "Timer", "Stop")) {
				if b, ok := c46IsFieldLoad(an.Recv(call), fTimer); ok && an.SameObj(b, base) {
					stops = append(stops, call)
				}
			}
			c.Check(ip.MustBefore(st)[mu] == an.LWrite && len(stops) > 0 && an.MustPrecede(k, st, stops), "O1", "R-PAIR", name, "timer.Stop-then-nil-under-mu", st.Pos(),
				"under ph.mu the pending timer is stopped and then forgotten", "stop() clears reconnectTimer without stopping it first, or outside ph.mu: the pending timer still fires and reconnects after stop")
		}
		// the nil-ing happens on every path where a timer exists
		timerNil := func(g *ssa.Function) an.EdgeSet {
			var tl []ssa.Value
			for _, l := range an.FieldReads(g, fTimer) {
				tl = append(tl, l)
			}
			return an.NilEdges(g, tl, true)
		}
		clr := an.IPSitesExcused(stopFn, nil, isNilTimerStore, timerNil)
		blocked := map[ssa.Instruction]bool{}
		for _, s := range clr {
			blocked[s] = true
		}
		c.Check(len(clr) > 0 && an.ReachesAnyReturn(stopFn, nil, timerNil(stopFn), blocked) == nil, "O1", "R-POST", name, "timer-cleared-on-every-path", stopFn.Pos(),
			"every path of stop() on which a timer exists clears it", "stop() can return with reconnectTimer still set: the armed timer fires after stop")
	}

	// ---------------------------------------------------------------- O2
	svcMuClass := "PeeringService." + nm.SMu
	gTimer := c20Guard{nm.Handler, nm.HTimer, nm.HMu, "", "handler.timer"}
	gDelay := c20Guard{nm.Handler, nm.HDelay, nm.HMu, "", "handler.delay"}
	gAddrs := c20Guard{nm.Handler, nm.HAddrs, nm.HMu, svcMuClass, "handler.addrs"}
	gPeers := c20Guard{"PeeringService", nm.SPeers, nm.SMu, "", "service.peers"}
	gSState := c20Guard{"PeeringService", nm.SState, nm.SMu, "", "service.state"}
	c20Guards(c, ip, pk, fns, []c20Guard{gTimer, gDelay, gAddrs, gPeers, gSState}, 1)
	// test-and-set of the timer and read-modify-write of the delay stay inside one critical section
	c20Atomic(c, ip, pk, fns, []c20Guard{gTimer, gDelay, gSState}, 1)
	// writers of addrs are only called with the service lock write-held
	nW := 0
	for _, fn := range fns {
		writes := false
		for _, st := range an.FieldStores(fn, fAddrs) {
			if _, b := an.FieldOf(st.Addr); !an.IsFresh(b) {
				writes = true
			}
		}
		if !writes {
			continue
		}
		for _, caller := range fns {
			for _, call := range an.AllCalls(caller) {
				hit := false
				for _, t := range ip.Targets(call) {
					if t.Fn == fn {
						hit = true
					}
				}
				if !hit {
					continue
				}
				nW++
				held := false
				for hp, m := range ip.MustBefore(call) {
					if m == an.LWrite && ip.ClassOf(hp) == svcMuClass {
						held = true
					}
				}
				c.Check(held, "O2", "R-GUARD", c20KeyName(caller), "call:"+fn.Name()+"<=ps.mu(W)", call.Pos(),
					"the writer of peerHandler.addrs is called with the service lock write-held (readers under the service read lock are safe)",
					c20KeyName(fn)+" writes peerHandler.addrs and is called without PeeringService.mu write-held: ListPeers reads addrs under the service read lock only and would race")
			}
		}
	}
	c.Min("O2 call sites of addrs writers", nW, 1)

	// ---------------------------------------------------------------- O3
	c46Backoff(c, pk, fns, fDelay)

	// ---------------------------------------------------------------- O4
	c46Service(c, pk, fns, ip, armers, stopFn, fPeers, fState, fCancel)
	// ---------------------------------------------------------------- O5
	c46Liveness(c, pk, fns, ip, armers, stopFn, fTimer, fCtx, fPeers, fState)
}

// c46Delay: the delay handed to AfterFunc/Reset is ph.nextBackoff() of the same handler.
func c46Delay(c *an.Ctx, pk string, fn *ssa.Function, at ssa.CallInstruction, d ssa.Value, base ssa.Value) {
	maxB := c46MaxBackoff(c, pk)
	ok, _ := an.AllRoots(d, nil, func(r ssa.Value) bool {
		if k, isK := an.ConstOf(r); isK && maxB != nil {
			ki := constant.ToInt(k)
			return ki.Kind() == constant.Int && constant.Compare(ki, token.GTR, constant.MakeInt64(0)) && constant.Compare(ki, token.LEQ, maxB)
		}
		call, isCall := r.(*ssa.Call)
		if isCall {
			nbf := c46BackoffFn(c, pk, c.P.Field(pk, c46PeeringNames(c).Handler, c46PeeringNames(c).HDelay))
			isCall = nbf != nil && an.Callee(call).Static == nbf
		}
		return isCall && an.XPath(an.Recv(call)) == an.XPath(base)
	})
	c.Check(ok, "O3", "R-FLOW", c20KeyName(fn), "delay=nextBackoff():"+an.Callee(at).Name, at.Pos(),
		"the delay is the handler's nextBackoff() (or a constant in (0, maxBackoff])", "the reconnect delay is neither the result of nextBackoff() of the same handler nor a constant in (0, maxBackoff]: it escapes the clamp")
}

func c46Const(c *an.Ctx, pk, name string) (constant.Value, bool) {
	pkg := c.P.Pkg(pk)
	if pkg == nil {
		return nil, false
	}
	k, ok := pkg.Types.Scope().Lookup(name).(*types.Const)
	if !ok {
		return nil, false
	}
	return k.Val(), true
}

func c46Backoff(c *an.Ctx, pk string, fns []*ssa.Function, fDelay *types.Var) {
	maxB := c46MaxBackoff(c, pk)
	if !c.Need(maxB != nil, "the constant nextDelay is compared with in the backoff function (maxBackoff)") {
		return
	}
	tenMin := constant.MakeInt64(int64(10 * 60 * 1e9))
	zero := constant.MakeInt64(0)
	cmp := func(a constant.Value, op token.Token, b constant.Value) bool { return constant.Compare(a, op, b) }
	c.Check(cmp(maxB, token.GTR, zero) && cmp(maxB, token.LEQ, tenMin), "O3", "R-CONST", pk, "0<maxBackoff<=10min", token.NoPos, "the backoff bound = "+maxB.String()+" ns in (0, 10 min]", "the constant the backoff is clamped to is outside (0, 10 min]: reconnect delays can exceed the 10 minute bound")

	// role: the backoff function is the peerHandler method whose result feeds
	// the timer delays (named nextBackoff today) — found as the callee of the
	// delay arguments; fall back to the name
	nb := c46BackoffFn(c, pk, fDelay)
	if !c.Need(nb != nil, "peerHandler method returning a time.Duration read from nextDelay that it also updates (nextBackoff)") {
		return
	}
	name := c20KeyName(nb)
	// the function and the helpers it calls on the same handler
	var group []*ssa.Function
	for _, g := range an.IPClosure(nb) {
		if g.Pkg == nb.Pkg && len(g.Params) > 0 && an.TypeIs(g.Params[0].Type(), pk, c46PeeringNames(c).Handler) {
			group = append(group, g)
		}
	}
	inGroup := map[*ssa.Function]bool{}
	for _, g := range group {
		inGroup[g] = true
	}
	isDelayLoadIn := func(g *ssa.Function) func(v ssa.Value) bool {
		return func(v ssa.Value) bool {
			b, ok := c46IsFieldLoad(v, fDelay)
			return ok && b == ssa.Value(g.Params[0])
		}
	}
	isMax := func(v ssa.Value) bool {
		k, ok := an.ConstOf(v)
		return ok && constant.Compare(constant.ToInt(k), token.EQL, maxB)
	}
	// (i) returns the field
	for _, r := range an.Returns(nb) {
		c.Check(len(r.Results) == 1 && isDelayLoadIn(nb)(r.Results[0]), "O3", "R-FLOW", name, "returns-nextDelay", r.Pos(), "the result is ph.nextDelay as left by the clamp", "nextBackoff returns something else than the clamped ph.nextDelay")
	}
	type shape struct {
		clamp, sub, grow, other []*ssa.Store
		bound                   an.EdgeSet
	}
	shapes := map[*ssa.Function]*shape{}
	nClamp, nBound, nOther := 0, 0, 0
	for _, g := range group {
		isDelayLoad := isDelayLoadIn(g)
		sh := &shape{}
		for _, st := range an.FieldStores(g, fDelay) {
			switch v := st.Val.(type) {
			case *ssa.Const:
				if isMax(v) {
					sh.clamp = append(sh.clamp, st)
				} else {
					sh.other = append(sh.other, st)
				}
			case *ssa.BinOp:
				switch {
				case v.Op == token.SUB && isDelayLoad(v.X):
					sh.sub = append(sh.sub, st)
				case v.Op == token.ADD:
					sh.grow = append(sh.grow, st)
				default:
					sh.other = append(sh.other, st)
				}
			default:
				sh.other = append(sh.other, st)
			}
		}
		sh.bound = an.CondEdges(g, func(atom ssa.Value) (bool, bool) {
			b, ok := atom.(*ssa.BinOp)
			if !ok {
				return false, false
			}
			op := b.Op
			switch {
			case isDelayLoad(b.X) && isMax(b.Y):
			case isMax(b.X) && isDelayLoad(b.Y):
				switch op { // mirror
				case token.LSS:
					op = token.GTR
				case token.LEQ:
					op = token.GEQ
				case token.GTR:
					op = token.LSS
				case token.GEQ:
					op = token.LEQ
				}
			default:
				return false, false
			}
			switch op {
			case token.GTR, token.GEQ:
				return false, true // not over on the false edge
			case token.LEQ, token.LSS:
				return true, false
			}
			return false, false
		})
		shapes[g] = sh
		nClamp += len(sh.clamp)
		nBound += len(sh.bound)
		nOther += len(sh.other)
	}
	c.Check(nOther == 0, "O3", "R-CMP", name, "stores-are-grow/clamp/jitter", nb.Pos(), "nextDelay is only grown, clamped to maxBackoff, or reduced by the jitter", fmt.Sprintf("nextBackoff stores an unrecognised value into nextDelay (%d store(s)): the (0, maxBackoff] bound is not established by shape", nOther))
	c.Min("O3 comparisons of nextDelay with maxBackoff", nBound, 1)
	c.Min("O3 clamp store nextDelay = maxBackoff", nClamp, 1)
	// bounding sites of g: clamp stores, and calls (same handler) of helpers that
	// leave nextDelay <= maxBackoff on every return
	var bounded func(g *ssa.Function, depth int) bool
	boundSites := func(g *ssa.Function, depth int) map[ssa.Instruction]bool {
		m := map[ssa.Instruction]bool{}
		for _, st := range shapes[g].clamp {
			m[st] = true
		}
		if depth < 3 {
			for _, call := range an.AllCalls(g) {
				h := an.Callee(call).Static
				if h != nil && h != g && inGroup[h] && an.Recv(call) == ssa.Value(g.Params[0]) && bounded(h, depth+1) {
					m[call] = true
				}
			}
		}
		return m
	}
	bounded = func(g *ssa.Function, depth int) bool {
		sh := shapes[g]
		bs := boundSites(g, depth)
		for _, r := range an.Returns(g) {
			if an.Reaches(g, nil, r, sh.bound, bs) {
				return false
			}
		}
		for _, st := range sh.grow {
			if an.ReachesAnyReturn(g, st, sh.bound, bs) != nil {
				return false
			}
		}
		return true
	}
	// (ii) at every return of nextBackoff nextDelay <= maxBackoff
	{
		sh := shapes[nb]
		bs := boundSites(nb, 0)
		for _, r := range an.Returns(nb) {
			c.Check(!an.Reaches(nb, nil, r, sh.bound, bs), "O3", "R-CMP", name, "return=>nextDelay<=maxBackoff", r.Pos(),
				"every path to the return established nextDelay <= maxBackoff by comparison or clamped it to maxBackoff",
				"nextBackoff can return on a path that neither tested nextDelay against maxBackoff nor clamped it: delays above 10 minutes are scheduled")
		}
	}
	for _, g := range group {
		sh := shapes[g]
		bs := boundSites(g, 0)
		for _, st := range sh.grow {
			c.Check(an.ReachesAnyReturn(g, st, sh.bound, bs) == nil || (g != nb && !an.Reaches(nb, nil, an.Returns(nb)[0], shapes[nb].bound, boundSites(nb, 0))), "O3", "R-POST", c20KeyName(g), "growth=>bounded-again", st.Pos(),
				"after growing the delay every path to return re-establishes nextDelay <= maxBackoff (test or clamp)",
				"nextDelay is grown on a path that returns without re-testing/clamping against maxBackoff: unbounded delay")
		}
		// (iii) jitter: nextDelay - Duration(rand.Int64N(K)), K < maxBackoff, only after the clamp
		for _, st := range sh.sub {
			v := st.Val.(*ssa.BinOp)
			okK := false
			for _, r := range an.Roots(v.Y, nil) {
				if call, ok := an.IsCallTo(r, an.M("math/rand/v2", "", "Int64N"), an.M("math/rand", "", "Int63n"), an.M("math/rand", "", "Int64N")); ok {
					if k, isK := an.ConstOf(call.Call.Args[0]); isK && constant.Compare(constant.ToInt(k), token.GTR, zero) && constant.Compare(constant.ToInt(k), token.LSS, maxB) {
						okK = true
					}
				}
			}
			c.Check(okK && an.MustPrecede(g, st, an.AsInstrs(sh.clamp)), "O3", "R-CMP", c20KeyName(g), "jitter-bounded-after-clamp", st.Pos(),
				"the jitter subtracts a random amount in [0, K) with 0 < K < maxBackoff from the clamped delay: result in (0, maxBackoff]",
				"the amount subtracted from nextDelay is not a bounded rand.Int64N(K) with 0 < K < maxBackoff applied after the clamp: the delay can become <= 0")
		}
	}
	// (v) all other stores in the package: the constant initialDelay
	n := 0
	for _, fn := range fns {
		if inGroup[fn] {
			continue
		}
		for _, st := range an.FieldStores(fn, fDelay) {
			n++
			k, ok := an.ConstOf(st.Val)
			c.Check(ok && constant.Compare(constant.ToInt(k), token.GTR, zero) && constant.Compare(constant.ToInt(k), token.LEQ, maxB), "O3", "R-CONST", c20KeyName(fn), "nextDelay=initialDelay", st.Pos(),
				"outside the backoff function the delay is only (re)set to a positive constant not above the bound (initialDelay)", "nextDelay is stored from something else than a positive constant <= maxBackoff outside the backoff function: the (0, maxBackoff] invariant of the backoff is not maintained")
		}
	}
	c.Min("O3 resets of nextDelay to initialDelay", n, 1)
}

func c46Service(c *an.Ctx, pk string, fns []*ssa.Function, ip *an.LockIP, armers map[*ssa.Function]bool, stopFn *ssa.Function, fPeers, fState, fCancel *types.Var) {
	p := c.P
	kStopped, ok := c46Const(c, pk, "StateStopped")
	if !c.Need(ok, "StateStopped") {
		return
	}
	isStopCall := func(call ssa.CallInstruction) bool { return an.Callee(call).Static == stopFn }
	// (a) delete from ps.peers only after stop()
	nDel := 0
	for _, fn := range fns {
		for _, d := range an.Calls(fn, an.M("builtin", "", "delete")) {
			args := d.Common().Args
			if _, ok := c46IsFieldLoad(args[0], fPeers); !ok {
				continue
			}
			nDel++
			var stops []ssa.Instruction
			rootsOf := func(v ssa.Value, env *an.IPEnv) map[ssa.Value]bool {
				m := map[ssa.Value]bool{}
				for _, r := range an.IPRoots(v, env, nil) {
					m[r.V] = true
				}
				return m
			}
			for _, call := range an.AllCalls(fn) {
				if !isStopCall(call) {
					continue
				}
				good := true
				envs := c19Contexts(fns, fn, an.Recv(call), args[1])
				for _, env := range envs {
					keyRoots := rootsOf(args[1], env)
					okEnv := false
					for _, r := range an.IPRoots(an.Recv(call), env, nil) {
						var lk *ssa.Lookup
						switch x := r.V.(type) {
						case *ssa.Lookup:
							lk = x
						case *ssa.Extract:
							lk, _ = x.Tuple.(*ssa.Lookup)
						}
						if lk == nil {
							continue
						}
						if _, ok := c46IsFieldLoad(lk.X, fPeers); !ok {
							continue
						}
						for kr := range rootsOf(lk.Index, r.Env) {
							if keyRoots[kr] {
								okEnv = true
							}
						}
					}
					if !okEnv {
						good = false
					}
				}
				if good {
					stops = append(stops, call)
				}
			}
			c.Check(len(stops) > 0 && an.MustPrecede(fn, d, stops), "O4", "R-PAIR", c20KeyName(fn), "delete(peers)<=handler.stop()", d.Pos(),
				"the handler looked up under the same key is stopped before it is removed from ps.peers", "a handler is deleted from ps.peers without being stopped first: its timer keeps reconnecting to a removed peer and Stop() no longer reaches it")
		}
	}
	c.Min("O4 deletes from ps.peers", nDel, 1)
	// (b) the function that sets StateStopped stops all handlers first
	nStop := 0
	for _, fn := range fns {
		for _, st := range an.FieldStores(fn, fState) {
			k, ok := an.ConstOf(st.Val)
			if !ok || !constant.Compare(constant.ToInt(k), token.EQL, kStopped) {
				continue
			}
			nStop++
			// a range over ps.peers whose every iteration calls stop() on the iteration's handler
			stopsAll := func(in ssa.Instruction, env *an.IPEnv) bool {
				rg, ok := in.(*ssa.Range)
				if !ok {
					return false
				}
				if _, ok := c46IsFieldLoad(rg.X, fPeers); !ok {
					return false
				}
				g := rg.Parent()
				for _, r := range *rg.Referrers() {
					nx, ok := r.(*ssa.Next)
					if !ok {
						continue
					}
					var oks []ssa.Value
					var elem ssa.Value
					for _, e := range *nx.Referrers() {
						if ex, ok := e.(*ssa.Extract); ok {
							if ex.Index == 0 {
								oks = append(oks, ex)
							} else if ex.Index == 2 {
								elem = ex
							}
						}
					}
					blocked := map[ssa.Instruction]bool{}
					for _, call := range an.AllCalls(g) {
						if isStopCall(call) && elem != nil && an.Recv(call) == elem {
							blocked[call] = true
						}
					}
					if len(blocked) == 0 {
						continue
					}
					body := an.BoolEdges(g, oks, true)
					all := len(body) > 0
					for e := range body {
						from, cut := c21ForcedFrom(e)
						if an.Reaches(g, from, nx, cut, blocked) {
							all = false
						}
					}
					if all {
						return true
					}
				}
				return false
			}
			sites := an.IPSites(fn, nil, true, stopsAll)
			good := len(sites) > 0 && an.MustPrecede(fn, st, sites)
			c.Check(good && ip.MustBefore(st)[an.XPath(fn.Params[0])+"."+c46PeeringNames(c).SMu] == an.LWrite, "O4", "R-PAIR", c20KeyName(fn), "StateStopped<=all-handlers-stopped", st.Pos(),
				"before the service is marked stopped (under ps.mu) stop() is called on every handler of ps.peers", "the service is marked stopped without stopping every handler of ps.peers first (or outside ps.mu): timers of the remaining handlers keep reconnecting after Stop()")
		}
	}
	if nStop == 0 {
		c.Bad("O4", "R-POST", pk, "service-stop=>StateStopped-recorded", token.NoPos,
			"no function stores StateStopped into the service state: Stop() stops the current handlers but the service is not marked stopped, so AddPeer and Start after Stop() arm reconnect timers again")
	}
	mayArm := ip.Reachable(func(in ssa.Instruction) bool { return armers[in.Parent()] })
	for f := range armers {
		mayArm[f] = true
	}
	// (b') the function that marks the service running launches the arming
	// goroutine for every handler registered so far (peers added before Start
	// would otherwise never get a reconnect scheduled)
	if kRunning, ok := c46Const(c, pk, "StateRunning"); ok {
		nRun := 0
		launchesAll := func(in ssa.Instruction, env *an.IPEnv) bool {
			rg, ok := in.(*ssa.Range)
			if !ok {
				return false
			}
			if _, ok := c46IsFieldLoad(rg.X, fPeers); !ok {
				return false
			}
			g := rg.Parent()
			for _, r := range *rg.Referrers() {
				nx, ok := r.(*ssa.Next)
				if !ok {
					continue
				}
				var elem ssa.Value
				for _, e := range *nx.Referrers() {
					if ex, ok := e.(*ssa.Extract); ok && ex.Index == 2 {
						elem = ex
					}
				}
				if elem == nil {
					continue
				}
				blocked := map[ssa.Instruction]bool{}
				an.Instrs(g, func(x ssa.Instruction) {
					if gi, ok := x.(*ssa.Go); ok {
						if tgt := an.Callee(gi).Static; tgt != nil && mayArm[tgt] && an.Recv(gi) == elem {
							blocked[gi] = true
						}
					}
				})
				// every iteration starts the goroutine: the loop head is not
				// reachable again without passing the go statement
				if len(blocked) > 0 && !an.Reaches(g, nx, nx, nil, blocked) {
					return true
				}
			}
			return false
		}
		for _, fn := range fns {
			for _, st := range an.FieldStores(fn, fState) {
				k, ok := an.ConstOf(st.Val)
				if !ok || !constant.Compare(constant.ToInt(k), token.EQL, kRunning) {
					continue
				}
				nRun++
				sites := an.IPSites(fn, nil, true, launchesAll)
				good := false
				if len(sites) > 0 {
					follows, _ := an.MustFollow(fn, st, sites)
					good = follows || an.MustPrecede(fn, st, sites)
				}
				c.Check(good && ip.MustBefore(st)[an.XPath(fn.Params[0])+"."+c46PeeringNames(c).SMu] == an.LWrite, "O4", "R-POST", c20KeyName(fn), "StateRunning=>all-handlers-launched", st.Pos(),
					"the function that marks the service running (under ps.mu) starts the arming goroutine for every handler of ps.peers",
					"the service is marked running without starting the arming goroutine for every handler already in ps.peers (or outside ps.mu): peers added before Start() are disconnected but never get a reconnect attempt scheduled")
			}
		}
		if nRun == 0 {
			c.Bad("O4", "R-POST", pk, "service-start=>StateRunning-recorded", token.NoPos,
				"no function stores StateRunning into the service state: the service never runs, no reconnect is ever scheduled")
		}
	}
	// (c) goroutines that can arm
	nGo := 0
	readsState := func(g *ssa.Function) bool { return len(an.FieldReads(g, fState)) > 0 }
	stateGuard := func(g *ssa.Function, site ssa.Instruction) bool {
		lset := map[ssa.Value]bool{}
		for _, l := range an.FieldReads(g, fState) {
			lset[l] = true
		}
		if len(lset) == 0 {
			return false
		}
		notStopped := an.CondEdges(g, func(atom ssa.Value) (bool, bool) {
			b, ok := atom.(*ssa.BinOp)
			if !ok || (b.Op != token.EQL && b.Op != token.NEQ) {
				return false, false
			}
			var kv ssa.Value
			switch {
			case lset[b.X]:
				kv = b.Y
			case lset[b.Y]:
				kv = b.X
			default:
				return false, false
			}
			k, ok := an.ConstOf(kv)
			if !ok {
				return false, false
			}
			isStopped := constant.Compare(constant.ToInt(k), token.EQL, kStopped)
			eq := b.Op == token.EQL
			if isStopped {
				return !eq, eq // state != Stopped
			}
			return eq, !eq // state == some other state
		})
		return an.GuardedBy(g, nil, site, notStopped)
	}
	for _, fn := range fns {
		an.Instrs(fn, func(in ssa.Instruction) {
			g, ok := in.(*ssa.Go)
			if !ok {
				return
			}
			tgt := an.Callee(g).Static
			if tgt == nil || !mayArm[tgt] {
				return
			}
			// is the decision made against ps.state at all on the way here
			// (this function, or every caller of a helper)?
			if !an.IPGuarded(fns, g, func(h *ssa.Function, s ssa.Instruction) bool { return readsState(h) }) {
				c.Note("O4: %s starts %s without reading ps.state; covered by O1 (the handler's own not-stopped test)", c20KeyName(fn), c20KeyName(tgt))
				return
			}
			nGo++
			c.Check(an.IPGuarded(fns, g, stateGuard), "O4", "R-DOM", c20KeyName(fn), "go-"+tgt.Name()+"<=state!=Stopped", g.Pos(),
				"the goroutine that may arm a reconnect timer is started only where ps.state was tested to be a state other than StateStopped",
				"a goroutine that can arm a reconnect timer is started on a path on which ps.state may be StateStopped: reconnect attempts start on a stopped service")
		})
	}
	c.Min("O4 state-guarded goroutine starts", nGo, 1)
	// (d) a handler that is registered (stored into ps.peers) while the service is stopped is cancelled before the function returns
	nNew := 0
	for _, fn := range fns {
		an.Instrs(fn, func(in ssa.Instruction) {
			reg, ok := in.(*ssa.MapUpdate)
			if !ok {
				return
			}
			if _, ok := c46IsFieldLoad(reg.Map, fPeers); !ok {
				return
			}
			a := reg.Value
			nNew++
			// cancelsIfStopped(g, h, from): in g every path (from `from`, nil =
			// entry) to a return that crosses a "state == StateStopped" edge
			// passes a cancel/stop of handler h
			stoppedEdgesOf := func(g *ssa.Function) an.EdgeSet {
				lset := map[ssa.Value]bool{}
				for _, l := range an.FieldReads(g, fState) {
					lset[l] = true
				}
				return an.CondEdges(g, func(atom ssa.Value) (bool, bool) {
					b, ok := atom.(*ssa.BinOp)
					if !ok || (b.Op != token.EQL && b.Op != token.NEQ) || !(lset[b.X] || lset[b.Y]) {
						return false, false
					}
					kv := b.Y
					if lset[b.Y] {
						kv = b.X
					}
					k, ok := an.ConstOf(kv)
					if !ok || !constant.Compare(constant.ToInt(k), token.EQL, kStopped) {
						return false, false
					}
					return b.Op == token.EQL, b.Op == token.NEQ
				})
			}
			var cancelsIfStopped func(g *ssa.Function, h ssa.Value, depth int) bool
			cancelsIfStopped = func(g *ssa.Function, h ssa.Value, depth int) bool {
				se := stoppedEdgesOf(g)
				blocked := map[ssa.Instruction]bool{}
				for _, call := range an.AllCalls(g) {
					if b, ok := c46IsFieldLoad(call.Common().Value, fCancel); ok && an.SameObj(b, h) {
						blocked[call] = true
					}
					if isStopCall(call) && an.SameObj(an.Recv(call), h) {
						blocked[call] = true
					}
				}
				if len(se) > 0 {
					if len(blocked) == 0 {
						return false
					}
					for e := range se {
						from, cut := c21ForcedFrom(e)
						if an.ReachesAnyReturn(g, from, cut, blocked) != nil {
							return false
						}
					}
					return true
				}
				// the state is not tested here: the decision is delegated to a
				// helper that receives the handler and runs on every path after
				// the registration
				if depth >= 2 {
					return false
				}
				var delegates []ssa.Instruction
				for _, call := range an.AllCalls(g) {
					callee := an.Callee(call).Static
					if callee == nil || callee.Blocks == nil || callee.Pkg != g.Pkg {
						continue
					}
					if _, isGo := call.(*ssa.Go); isGo {
						continue
					}
					for i, arg := range call.Common().Args {
						if i < len(callee.Params) && an.SameObj(arg, h) && cancelsIfStopped(callee, callee.Params[i], depth+1) {
							delegates = append(delegates, call)
						}
					}
				}
				if len(delegates) == 0 {
					return false
				}
				var from ssa.Instruction
				if g == fn {
					from = reg
				}
				bl := map[ssa.Instruction]bool{}
				for _, d := range delegates {
					bl[d] = true
				}
				return an.ReachesAnyReturn(g, from, nil, bl) == nil
			}
			good := cancelsIfStopped(fn, a, 0)
			c.Check(good, "O4", "R-POST", c20KeyName(fn), "new-handler-on-stopped-service=>cancelled", reg.Pos(),
				"a handler registered while ps.state == StateStopped is cancelled before the function returns", "a handler can be registered on a stopped service without being cancelled: a later notification starts reconnecting to it although the service is stopped")
		})
	}
	c.Min("O4 handler registrations (ps.peers[id] = h)", nNew, 1)
	_ = p
}

// ---------------------------------------------------------------- O5

func c46Liveness(c *an.Ctx, pk string, fns []*ssa.Function, ip *an.LockIP, armers map[*ssa.Function]bool, stopFn *ssa.Function, fTimer, fCtx, fPeers, fState *types.Var) {
	p := c.P
	const netPkg = "github.com/libp2p/go-libp2p/core/network"
	// network.Connected
	var kConnected constant.Value
	if pkg := p.Pkg(pk); pkg != nil {
		for _, imp := range pkg.Types.Imports() {
			if imp.Path() == netPkg {
				if k, ok := imp.Scope().Lookup("Connected").(*types.Const); ok {
					kConnected = k.Val()
				}
			}
		}
	}
	if !c.Need(kConnected != nil, "network.Connected") {
		return
	}
	connectedEdges := func(fn *ssa.Function, want bool) an.EdgeSet {
		return an.CondEdges(fn, func(atom ssa.Value) (bool, bool) {
			b, ok := atom.(*ssa.BinOp)
			if !ok || (b.Op != token.EQL && b.Op != token.NEQ) {
				return false, false
			}
			x, y := b.X, b.Y
			if _, isCall := an.IsCallTo(y, an.M(netPkg, "Network", "Connectedness")); isCall {
				x, y = y, x
			}
			if _, isCall := an.IsCallTo(x, an.M(netPkg, "Network", "Connectedness")); !isCall {
				return false, false
			}
			k, ok := an.ConstOf(y)
			if !ok || !constant.Compare(constant.ToInt(k), token.EQL, kConnected) {
				return false, false
			}
			eq := b.Op == token.EQL
			if want {
				return eq, !eq
			}
			return !eq, eq
		})
	}
	// (a) the timer is dropped, outside stop(), only for a connected peer
	n := 0
	for _, fn := range fns {
		for _, st := range an.FieldStores(fn, fTimer) {
			if !an.IsNilConst(st.Val) {
				continue
			}
			if _, b := an.FieldOf(st.Addr); an.IsFresh(b) {
				continue
			}
			// part of the permanent stop (stop itself or a helper only it calls)?
			if an.IPGuarded(fns, st, func(g *ssa.Function, s ssa.Instruction) bool { return g == stopFn }) {
				continue
			}
			n++
			ok := an.IPGuarded(fns, st, func(g *ssa.Function, s ssa.Instruction) bool {
				if g == stopFn {
					return true
				}
				ce := connectedEdges(g, true)
				return len(ce) > 0 && an.GuardedBy(g, nil, s, ce)
			})
			c.Check(ok, "O5", "R-DOM", c20KeyName(fn), "clear-timer<=Connected", st.Pos(),
				"outside stop() the reconnect timer is dropped only where Connectedness(peer) == Connected",
				"the reconnect timer is dropped although the peer may not be connected: a disconnected peering peer is left without a scheduled reconnect attempt")
		}
	}
	_ = n
	// a stopped timer is forgotten: every reconnectTimer.Stop() is followed, on
	// every path, by reconnectTimer = nil (a stale non-nil timer makes reconnect()
	// re-arm after stop and makes startIfDisconnected think a reconnect is scheduled)
	isNilStore := func(in ssa.Instruction, env *an.IPEnv) bool {
		st, ok := in.(*ssa.Store)
		if !ok || !an.IsNilConst(st.Val) {
			return false
		}
		f, _ := an.FieldOf(st.Addr)
		return f == fTimer
	}
	nStopT := 0
	for _, fn := range fns {
		for _, call := range an.Calls(fn, an.M("time", "Timer", "Stop")) {
			if _, ok := c46IsFieldLoad(an.Recv(call), fTimer); !ok {
				continue
			}
			nStopT++
			ok := an.IPGuarded(fns, call, func(g *ssa.Function, site ssa.Instruction) bool {
				var after []ssa.Instruction
				for _, s := range an.IPSites(g, nil, true, isNilStore) {
					if s != site {
						after = append(after, s)
					}
				}
				if len(after) == 0 {
					return false
				}
				follows, _ := an.MustFollow(g, site, after)
				return follows
			})
			c.Check(ok, "O5", "R-PAIR", c20KeyName(fn), "Timer.Stop=>reconnectTimer=nil", call.Pos(),
				"after stopping the timer the handler forgets it (reconnectTimer = nil) on every path",
				"reconnectTimer is stopped but stays non-nil on some path: a reconnect attempt in flight sees it and re-arms it after stop()/connect (reconnects continue for a stopped peer), and startIfDisconnected believes a reconnect is already scheduled")
		}
	}
	c.Min("O5 reconnectTimer.Stop() calls", nStopT, 1)
	// the converse: a timer is forgotten only after it was stopped — a timer that
	// is dropped while still scheduled fires reconnect() later and can no longer
	// be stopped by stop() (a dial after Stop()/RemovePeer)
	for _, fn := range fns {
		an.Instrs(fn, func(in ssa.Instruction) {
			st, ok := in.(*ssa.Store)
			if !ok || !an.IsNilConst(st.Val) {
				return
			}
			f, b := an.FieldOf(st.Addr)
			if f != fTimer || an.IsFresh(b) {
				return
			}
			ok = an.IPGuarded(fns, st, func(g *ssa.Function, site ssa.Instruction) bool {
				var before []ssa.Instruction
				for _, call := range an.Calls(g, an.M("time", "Timer", "Stop")) {
					if _, ok := c46IsFieldLoad(an.Recv(call), fTimer); ok {
						before = append(before, call)
					}
				}
				return len(before) > 0 && an.MustPrecede(g, site, before)
			})
			c.Check(ok, "O5", "R-PAIR", c20KeyName(fn), "reconnectTimer=nil<=Timer.Stop", st.Pos(),
				"the handler forgets its timer only after stopping it",
				"reconnectTimer is set to nil without stopping the timer first on some path: the still-scheduled timer fires reconnect() later and stop() can no longer reach it — a reconnect attempt after Stop()/RemovePeer, and a second timer chain next to the one startIfDisconnected arms")
		})
	}

	// (b) Disconnected notification -> arming goroutine for that peer's handler
	mayArm := ip.Reachable(func(in ssa.Instruction) bool { return armers[in.Parent()] })
	for f := range armers {
		mayArm[f] = true
	}
	if dn := p.Func(pk, c46PeeringNames(c).Notifee, "Disconnected"); c.Need(dn != nil, "Disconnected method of the notifee type") {
		var gos []ssa.Instruction
		notFound := an.EdgeSet{}
		conn := dn.Params[len(dn.Params)-1]
		an.Instrs(dn, func(in ssa.Instruction) {
			g, ok := in.(*ssa.Go)
			if !ok {
				return
			}
			tgt := an.Callee(g).Static
			if tgt == nil || !mayArm[tgt] {
				return
			}
			recv := an.Recv(g)
			fromPeers := false
			for _, r := range an.IPRoots(recv, nil, nil) {
				var lk *ssa.Lookup
				switch x := r.V.(type) {
				case *ssa.Lookup:
					lk = x
				case *ssa.Extract:
					lk, _ = x.Tuple.(*ssa.Lookup)
				}
				if lk == nil {
					continue
				}
				if _, ok := c46IsFieldLoad(lk.X, fPeers); !ok {
					continue
				}
				for _, kr := range an.IPRoots(lk.Index, r.Env, nil) {
					if rp, ok := an.IsCallTo(kr.V, an.M(netPkg, "Conn", "RemotePeer")); ok && kr.Env == nil && an.Recv(rp) == ssa.Value(conn) {
						fromPeers = true
					}
				}
				if r.Env == nil && lk.CommaOk && lk.Referrers() != nil {
					var oks []ssa.Value
					for _, rr := range *lk.Referrers() {
						if ex, ok := rr.(*ssa.Extract); ok && ex.Index == 1 {
							oks = append(oks, ex)
						}
					}
					notFound = notFound.Union(an.BoolEdges(dn, oks, false))
				}
			}
			if !fromPeers {
				return
			}
			gos = append(gos, g)
			notFound = notFound.Union(an.NilEdges(dn, []ssa.Value{recv}, true))
		})
		blocked := map[ssa.Instruction]bool{}
		for _, g := range gos {
			blocked[g] = true
		}
		good := len(gos) > 0 && an.ReachesAnyReturn(dn, nil, notFound, blocked) == nil
		c.Check(good, "O5", "R-POST", c20KeyName(dn), "disconnected=>go-arm(peers[RemotePeer])", dn.Pos(),
			"for a registered peer a Disconnected notification always starts the goroutine that schedules a reconnect for that peer's handler",
			"a Disconnected notification of a registered peering peer can return without starting the arming goroutine for the handler of c.RemotePeer(): the peer stays disconnected with no reconnect scheduled")
	}
	// (c) notifee registration
	for _, spec := range []struct {
		method, call string
		beforeState  bool
	}{{"Start", "Notify", true}, {"Stop", "StopNotify", false}} {
		fn := p.Func(pk, "PeeringService", spec.method)
		if !c.Need(fn != nil, "PeeringService."+spec.method) {
			continue
		}
		calls := an.Calls(fn, an.M(netPkg, "Network", spec.call))
		good := false
		for _, call := range calls {
			for _, r := range an.Roots(an.Args(call)[0], nil) {
				if r == ssa.Value(fn.Params[0]) {
					good = true
				}
			}
		}
		if good && spec.beforeState {
			// registered before the service reports running, on every path that sets the state
			for _, st := range an.FieldStores(fn, fState) {
				if !an.MustPrecede(fn, st, an.AsInstrs(calls)) {
					good = false
				}
			}
		}
		if good && !spec.beforeState {
			for _, r := range an.Returns(fn) {
				if an.Reaches(fn, nil, r, nil, nil) && !an.MustPrecede(fn, r, an.AsInstrs(calls)) {
					good = false
				}
			}
		}
		c.Check(good, "O5", "R-API", c20KeyName(fn), spec.call+"(notifee-of-this-service)", fn.Pos(),
			spec.method+" calls Network()."+spec.call+" with this service's notifee",
			spec.method+" does not "+spec.call+" this service's notifee on every path: disconnects are never seen (no reconnect is scheduled) / notifications keep arriving after Stop")
	}
	// (d) dial with the handler's own context and peer
	nDial := 0
	for _, fn := range fns {
		for _, call := range an.Calls(fn, an.M("github.com/libp2p/go-libp2p/core/host", "Host", "Connect")) {
			// role: the function that dials on behalf of a handler (it has the
			// handler as receiver or parameter) — reconnect itself or a helper
			var hp ssa.Value
			for _, prm := range fn.Params {
				if an.TypeIs(prm.Type(), pk, c46PeeringNames(c).Handler) {
					hp = prm
				}
			}
			if hp == nil {
				continue
			}
			nDial++
			args := an.Args(call)
			b, okCtx := c46IsFieldLoad(args[0], fCtx)
			okCtx = okCtx && b == hp
			c.Check(okCtx, "O5", "R-FLOW", c20KeyName(fn), "Connect(ph.ctx)", call.Pos(),
				"the reconnect dial runs under the handler's context, which stop() cancels",
				"the reconnect dial does not use ph.ctx: stop()/RemovePeer cannot cancel an attempt in flight and attempts are made with a live context after stop")
		}
	}
	c.Min("O5 reconnect dials", nDial, 1)
}

// c46BackoffFn finds the backoff function by role: the peerHandler method with
// a single time.Duration result that is a read of nextDelay and that (itself
// or through helpers on the same handler) stores nextDelay.
func c46BackoffFn(c *an.Ctx, pk string, fDelay *types.Var) *ssa.Function {
	var found *ssa.Function
	for _, fn := range c.P.Methods(pk, c46PeeringNames(c).Handler) {
		res := fn.Signature.Results()
		if res.Len() != 1 || !an.TypeIs(res.At(0).Type(), "time", "Duration") {
			continue
		}
		reads := true
		for _, r := range an.Returns(fn) {
			if len(r.Results) != 1 {
				reads = false
				continue
			}
			if _, ok := c46IsFieldLoad(r.Results[0], fDelay); !ok {
				reads = false
			}
		}
		stores := false
		for _, g := range an.IPClosure(fn) {
			if len(an.FieldStores(g, fDelay)) > 0 {
				stores = true
			}
		}
		if reads && stores && (found == nil) {
			found = fn
		}
	}
	return found
}

// c46MaxBackoff finds the bound of the backoff by role: the one constant the
// handler's delay field is compared with inside the backoff function (and its
// helpers).
func c46MaxBackoff(c *an.Ctx, pk string) constant.Value {
	nm := c46PeeringNames(c)
	fDelay := c.P.Field(pk, nm.Handler, nm.HDelay)
	if fDelay == nil {
		return nil
	}
	nb := c46BackoffFn(c, pk, fDelay)
	if nb == nil {
		return nil
	}
	vals := map[string]constant.Value{}
	for _, g := range an.IPClosure(nb) {
		an.Instrs(g, func(in ssa.Instruction) {
			b, ok := in.(*ssa.BinOp)
			if !ok {
				return
			}
			switch b.Op {
			case token.LSS, token.LEQ, token.GTR, token.GEQ:
			default:
				return
			}
			x, y := b.X, b.Y
			if _, isLoad := c46IsFieldLoad(y, fDelay); isLoad {
				x, y = y, x
			}
			if _, isLoad := c46IsFieldLoad(x, fDelay); !isLoad {
				return
			}
			if k, ok := an.ConstOf(y); ok {
				v := constant.ToInt(k)
				vals[v.ExactString()] = v
			}
		})
	}
	if len(vals) != 1 {
		return nil
	}
	for _, v := range vals {
		return v
	}
	return nil
}
