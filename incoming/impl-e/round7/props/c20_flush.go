package props

// O5 of C19 and C20: the descriptor state machine. All rules look through
// same-package helpers (an.IPSites / an.IPRoots): a store, call or test that
// was extracted into a helper called on the same descriptor counts where the
// helper is called.

import (
	"go/token"
	"go/types"
	"strings"

	"golang.org/x/tools/go/ssa"

	"verif/checker/an"
)

type c20fl struct {
	c                      *an.Ctx
	pk                     string
	fState, fMod, fNode    *types.Var
	kClosed, kFlushed, kDy string
}

// stateStore: in is a store of constant k to fileDescriptor.state.
func (x *c20fl) stateStore(k string) func(in ssa.Instruction, env *an.IPEnv) bool {
	return func(in ssa.Instruction, env *an.IPEnv) bool {
		st, ok := in.(*ssa.Store)
		if !ok {
			return false
		}
		f, _ := an.FieldOf(st.Addr)
		return f == x.fState && c20IsConst(st.Val, k)
	}
}

func c20CallPred(ms ...an.Matcher) func(in ssa.Instruction, env *an.IPEnv) bool {
	return func(in ssa.Instruction, env *an.IPEnv) bool {
		call, ok := in.(ssa.CallInstruction)
		if !ok {
			return false
		}
		ci := an.Callee(call)
		for _, m := range ms {
			if m.Match(ci) {
				return true
			}
		}
		return false
	}
}

// stateEq: edges of fn on which state == k is known to be `want`. Besides
// direct comparisons this accepts a guard helper: `if err := fi.check(); err
// != nil { return err }` where every error return of check lies behind
// state == k (then the helper's nil-error edge means state != k, and with
// want=true its non-nil edge is the state == k edge).
func (x *c20fl) stateEq(fn *ssa.Function, k string, want bool) an.EdgeSet {
	direct := func(g *ssa.Function, want bool) an.EdgeSet {
		loads := map[ssa.Value]bool{}
		for _, l := range an.FieldReads(g, x.fState) {
			loads[l] = true
		}
		return an.CondEdges(g, func(atom ssa.Value) (bool, bool) {
			b, ok := atom.(*ssa.BinOp)
			if !ok || (b.Op != token.EQL && b.Op != token.NEQ) {
				return false, false
			}
			if !(loads[b.X] && c20IsConst(b.Y, k) || loads[b.Y] && c20IsConst(b.X, k)) {
				return false, false
			}
			eq := b.Op == token.EQL
			if want {
				return eq, !eq
			}
			return !eq, eq
		})
	}
	out := direct(fn, want)
	for _, call := range an.AllCalls(fn) {
		h := an.Callee(call).Static
		errs := an.ErrResult(call)
		if h == nil || h.Blocks == nil || len(errs) == 0 || h == fn {
			continue
		}
		// every error return of h behind state==k, every nil return behind state!=k ... only the first is needed for want=true
		hEq := direct(h, true)
		if len(hEq) == 0 {
			continue
		}
		onlyWhenK := true
		n := 0
		for _, r := range an.Returns(h) {
			if !an.Reaches(h, nil, r, nil, nil) {
				continue
			}
			switch an.ReturnErrKind(h, r) {
			case an.ErrKindNil:
				// a nil return must not be reachable when state == k
				if !an.GuardedBy(h, nil, r, direct(h, false)) {
					onlyWhenK = false
				}
			default:
				n++
			}
		}
		if !onlyWhenK || n == 0 {
			continue
		}
		if want {
			// err != nil may have other reasons as well (checkWrite: read-only): only usable as "state==k possible", not as a guard
			allErrK := true
			for _, r := range an.Returns(h) {
				if an.Reaches(h, nil, r, nil, nil) && an.ReturnErrKind(h, r) != an.ErrKindNil && !an.GuardedBy(h, nil, r, hEq) {
					allErrK = false
				}
			}
			if allErrK {
				out = out.Union(an.NilEdges(fn, errs, false))
			}
		} else {
			out = out.Union(an.NilEdges(fn, errs, true))
		}
	}
	return out
}

func c20Flush(c *an.Ctx, pk string) {
	p := c.P
	x := &c20fl{c: c, pk: pk}
	nm := c19MfsNames(c)
	if !c19NeedNames(c, nm) {
		return
	}
	x.fState, x.fMod, x.fNode = p.Field(pk, nm.Fd, nm.FdState), p.Field(pk, nm.Fd, nm.FdMod), p.Field(pk, "File", nm.FileNode)
	x.kClosed, x.kFlushed, x.kDy = nm.KClosed, nm.KFlushed, nm.KDirty
	if !c.Need(x.fState != nil && x.fMod != nil && x.fNode != nil, "descriptor state/modifier fields, File node field") {
		return
	}
	fState, fMod, fNode := x.fState, x.fMod, x.fNode
	// role: the flush routine is the fileDescriptor method that marks the
	// descriptor flushed (itself or through a helper) and takes the
	// DagModifier's node
	getNodeM := an.M("ipld/unixfs/mod", "DagModifier", "GetNode")
	addM := []an.Matcher{an.M("github.com/ipfs/go-ipld-format", "DAGService", "Add"), an.M("github.com/ipfs/go-ipld-format", "NodeAdder", "Add")}
	upM := an.M(pk, nm.Parent, nm.UpMethod)
	var flushUp *ssa.Function
	var cands []*ssa.Function
	for _, fn := range p.Methods(pk, nm.Fd) {
		if len(an.IPSites(fn, nil, false, x.stateStore(x.kFlushed))) > 0 && len(an.IPSites(fn, nil, false, c20CallPred(getNodeM))) > 0 {
			cands = append(cands, fn)
		}
	}
	if len(cands) == 0 {
		// a flush routine that lost its GetNode call is still the flush routine:
		// fall back to "marks the descriptor flushed" so that the missing step is
		// reported as a violation below instead of an unresolved anchor
		for _, fn := range p.Methods(pk, nm.Fd) {
			if len(an.IPSites(fn, nil, false, x.stateStore(x.kFlushed))) > 0 {
				cands = append(cands, fn)
			}
		}
	}
	// the innermost candidate: the one that does not reach another candidate
	for _, fn := range cands {
		inner := true
		for _, g := range an.IPClosure(fn) {
			if g == fn {
				continue
			}
			for _, o := range cands {
				if o == g {
					inner = false
				}
			}
		}
		if inner {
			flushUp = fn
		}
	}
	if !c.Need(flushUp != nil, "fileDescriptor method that takes mod.GetNode() and marks the descriptor flushed (flushUp)") {
		return
	}
	isFlushCall := func(in ssa.Instruction, env *an.IPEnv) bool {
		call, ok := in.(ssa.CallInstruction)
		return ok && an.Callee(call).Static == flushUp
	}

	// (a) callers: every return is either the already-closed return or preceded by the flush routine
	nA := 0
	for _, fn := range p.Methods(pk, nm.Fd) {
		if fn == flushUp {
			continue
		}
		calls := an.IPSites(fn, nil, true, isFlushCall)
		if len(calls) == 0 {
			continue
		}
		closed := x.stateEq(fn, x.kClosed, true)
		blocked := map[ssa.Instruction]bool{}
		for _, cl := range calls {
			blocked[cl] = true
		}
		for _, r := range an.Returns(fn) {
			if !an.Reaches(fn, nil, r, nil, nil) {
				continue // recover block
			}
			nA++
			c.Check(!an.Reaches(fn, nil, r, closed, blocked), "O5", "R-POST", c20KeyName(fn), "return<=flushUp", r.Pos(),
				"return reached only after flushUp or on the already-closed path",
				c20KeyName(fn)+" can return without calling flushUp although the descriptor is not closed: written data is acknowledged but never becomes the file's node")
		}
		for _, cl := range calls {
			v, _ := cl.(ssa.Value)
			reported := false
			if v != nil && an.IsErrorType(v.Type()) {
				for _, u := range an.Uses(v) {
					if _, ok := u.(*ssa.Return); ok {
						reported = true
					}
				}
			}
			c.Check(reported, "O5", "R-FLOW", c20KeyName(fn), "flushUp-error-reported", cl.Pos(),
				"flushUp's error is returned to the caller", "the error of flushUp is dropped: a failed flush is acknowledged as success")
		}
	}
	c.Min("O5 returns of flushUp callers", nA, 1)

	// (b) state = stateFlushed only after success of GetNode, dagService.Add, updateChildEntry
	flushedStores := an.IPSites(flushUp, nil, false, x.stateStore(x.kFlushed))
	type step struct {
		name string
		m    []an.Matcher
		must bool
	}
	steps := []step{{"GetNode", []an.Matcher{getNodeM}, true}, {"Add", addM, true}, {"parent-update", []an.Matcher{upM}, false}}
	nB := 0
	var allFallible []ssa.Instruction
	for _, s := range steps {
		sites := an.IPSites(flushUp, nil, false, c20CallPred(s.m...))
		allFallible = append(allFallible, sites...)
		for _, site := range sites {
			call, ok := site.(ssa.CallInstruction)
			if !ok {
				continue
			}
			nB++
			errs := an.ErrResult(call)
			if len(errs) == 0 {
				continue
			}
			okEdges := an.NilEdges(flushUp, errs, true)
			for _, st := range flushedStores {
				c.Check(!an.Reaches(flushUp, site, st, okEdges, nil), "O5", "R-DOM", c20KeyName(flushUp), "flushed<=ok:"+s.name, st.Pos(),
					"descriptor marked flushed only on the nil-error edge of "+s.name,
					"descriptor can be marked flushed although "+s.name+" failed: the next Flush/Close is a no-op and the write is lost")
			}
		}
		if s.must {
			must := an.IPSites(flushUp, nil, true, c20CallPred(s.m...))
			for _, st := range flushedStores {
				c.Check(len(must) > 0 && an.MustPrecede(flushUp, st, must), "O5", "R-DOM", c20KeyName(flushUp), "flushed<=did:"+s.name, st.Pos(),
					s.name+" precedes the flushed mark on every path", "descriptor can be marked flushed on a path that never called "+s.name)
			}
		}
	}
	c.Min("O5 fallible steps of flushUp", nB, 1)
	c.Min("O5 stores of stateFlushed in flushUp", len(flushedStores), 1)
	for _, st := range flushedStores {
		var after []string
		for _, site := range allFallible {
			if site != st && an.Reaches(flushUp, st, site, nil, nil) {
				after = append(after, an.Callee(site.(ssa.CallInstruction)).String())
			}
		}
		c.Check(len(after) == 0, "O5", "R-POST", c20KeyName(flushUp), "flushed-is-last", st.Pos(),
			"no fallible flush step runs after the descriptor is marked flushed",
			"descriptor is marked flushed before "+strings.Join(c20Uniq(after), ", ")+" ran: if that step fails the next Flush/Close is a no-op and the write is lost")
	}

	// (b2) no-op exit only in state flushed; node installed before the flushed mark
	{
		gets := an.IPSites(flushUp, nil, false, c20CallPred(getNodeM))
		blocked := map[ssa.Instruction]bool{}
		for _, g := range gets {
			blocked[g] = true
		}
		flushedEdge := x.stateEq(flushUp, x.kFlushed, true)
		n := 0
		for _, r := range an.Returns(flushUp) {
			if an.ReturnErrKind(flushUp, r) == an.ErrKindNonNil || !an.Reaches(flushUp, nil, r, nil, blocked) {
				continue
			}
			n++
			c.Check(len(flushedEdge) > 0 && !an.Reaches(flushUp, nil, r, flushedEdge, blocked), "O5", "R-DOM", c20KeyName(flushUp), "noop-only-when-flushed", r.Pos(),
				"flushUp returns without producing a node only where state == stateFlushed",
				"flushUp can return success without taking the DagModifier's node in a state other than stateFlushed (created/dirty): pending changes are acknowledged but never stored")
		}
		c.Min("O5 no-op returns of flushUp", n, 1)
		nodeSt := an.IPSites(flushUp, nil, true, func(in ssa.Instruction, env *an.IPEnv) bool {
			st, ok := in.(*ssa.Store)
			if !ok {
				return false
			}
			f, _ := an.FieldOf(st.Addr)
			return f == fNode
		})
		for _, st := range flushedStores {
			c.Check(len(nodeSt) > 0 && an.MustPrecede(flushUp, st, nodeSt), "O5", "R-DOM", c20KeyName(flushUp), "flushed<=File.node-stored", st.Pos(),
				"the file's node is replaced on every path that marks the descriptor flushed",
				"the descriptor can be marked flushed on a path that did not store the new node into File.node: later reads and directory flushes see the old content")
		}
	}
	// (b3) an explicit Flush propagates all the way up
	for _, fn := range p.Methods(pk, nm.Fd) {
		if fn.Name() != "Flush" {
			continue
		}
		for _, in := range an.IPInner(fn, nil, isFlushCall) {
			call := in.In.(ssa.CallInstruction)
			args := an.Args(call)
			if len(args) == 0 {
				continue
			}
			good := false
			for _, r := range an.IPRoots(args[0], in.Env, nil) {
				if k, ok := an.ConstOf(r.V); ok && k.String() == "true" {
					good = true
				} else {
					good = false
					break
				}
			}
			c.Check(good, "O5", "R-API", c20KeyName(fn), "Flush=>flushUp(true)", in.Outer().Pos(),
				"an explicit Flush propagates to the parent chain (fullSync = true)",
				"fileDescriptor.Flush does not call flushUp with fullSync = true: a flushed write is not linked into the parent directory / root")
		}
	}
	// (b4) closing
	for _, fn := range p.Methods(pk, nm.Fd) {
		closedSt := an.IPSites(fn, nil, true, x.stateStore(x.kClosed))
		var rels []ssa.Instruction
		for _, call := range an.AllCalls(fn) {
			if ops := an.XSyncModel(call); len(ops) == 1 && !ops[0].Acquire && strings.HasSuffix(ops[0].Path, "."+nm.FileDescLock) {
				rels = append(rels, call)
			}
		}
		if len(closedSt) == 0 && len(rels) == 0 {
			continue
		}
		closed := x.stateEq(fn, x.kClosed, true)
		blocked := map[ssa.Instruction]bool{}
		for _, s := range closedSt {
			blocked[s] = true
		}
		ok := len(closed) > 0
		at := fn.Pos()
		for _, r := range an.Returns(fn) {
			if an.Reaches(fn, nil, r, nil, nil) && an.Reaches(fn, nil, r, closed, blocked) {
				ok, at = false, r.Pos()
			}
		}
		if len(rels) == 0 {
			// a helper that only stores the state: nothing to pair it with here
			continue
		}
		c.Check(ok, "O5", "R-POST", c20KeyName(fn), "close=>stateClosed", at,
			"every return of the closing method is the already-closed one or lies behind state = stateClosed",
			c20KeyName(fn)+" can return without marking the descriptor closed (or no longer tests for an already closed descriptor): a second Close releases desclock again (panic, or it releases another descriptor's lock) and later writes go to a dead DagModifier")
		notClosed := x.stateEq(fn, x.kClosed, false)
		for _, call := range rels {
			ops := an.XSyncModel(call.(ssa.CallInstruction))
			c.Check(an.GuardedBy(fn, nil, call, notClosed), "O5", "R-DOM", c20KeyName(fn), "release-desclock<=not-closed:"+an.ModeStr(ops[0].Mode), call.Pos(),
				"desclock is released only where the descriptor was tested not closed", "desclock is released without testing that the descriptor is not already closed: closing twice unlocks a mutex this descriptor no longer holds")
		}
	}

	// (c) node provenance: what is installed in File.node is the node produced by this descriptor's DagModifier, added to the DAG service
	fromGetNode := func(v ssa.Value, env *an.IPEnv) bool {
		rs := an.IPRoots(v, env, nil)
		if len(rs) == 0 {
			return false
		}
		for _, r := range rs {
			call, ok := an.IsCallTo(r.V, getNodeM)
			if !ok {
				return false
			}
			f, _ := an.FieldOf(c20Deref(an.Recv(call)))
			if f != fMod {
				return false
			}
		}
		return true
	}
	nodeStores := an.IPInner(flushUp, nil, func(in ssa.Instruction, env *an.IPEnv) bool {
		st, ok := in.(*ssa.Store)
		if !ok {
			return false
		}
		f, _ := an.FieldOf(st.Addr)
		return f == fNode
	})
	addInner := an.IPInner(flushUp, nil, c20CallPred(addM...))
	c.Min("O5 stores to File.node reached from flushUp", len(nodeStores), 1)
	c.Min("O5 DAGService.Add reached from flushUp", len(addInner), 1)
	for _, ns := range nodeStores {
		st := ns.In.(*ssa.Store)
		c.Check(fromGetNode(st.Val, ns.Env), "O5", "R-FLOW", c20KeyName(flushUp), "File.node=mod.GetNode()", st.Pos(),
			"the file's node becomes the node produced by this descriptor's DagModifier", "File.node is stored from a value that is not fi.mod.GetNode(): flushed data does not become the file's content")
		added := false
		for _, a := range addInner {
			call := a.In.(ssa.CallInstruction)
			args := an.Args(call)
			if len(args) != 2 || !fromGetNode(args[1], a.Env) {
				continue
			}
			if oc, ok := a.Outer().(ssa.CallInstruction); ok && an.OnNilEdgeOf(flushUp, oc, ns.Outer()) {
				added = true
			}
		}
		c.Check(added, "O5", "R-DOM", c20KeyName(flushUp), "File.node<=dagService.Add-ok", st.Pos(),
			"node is added to the DAG service (nil-error edge) before it becomes the file's node", "File.node can be replaced by a node that was not successfully added to the DAG service: later reads/parents reference a missing block")
	}

	// (d) mutators mark dirty first
	nD := 0
	isMutator := func(ci an.CallInfo) bool {
		if ci.Recv != "DagModifier" || !strings.HasSuffix(ci.Pkg, "ipld/unixfs/mod") {
			return false
		}
		for _, pre := range []string{"Write", "Truncate", "Expand", "Append"} {
			if strings.HasPrefix(ci.Name, pre) {
				return true
			}
		}
		return false
	}
	for _, fn := range p.PkgFuncs(pk) {
		for _, call := range an.AllCalls(fn) {
			if !isMutator(an.Callee(call)) {
				continue
			}
			r := an.Recv(call)
			if r == nil {
				continue
			}
			f, fdBase := an.FieldOf(c20Deref(r))
			if f != fMod {
				continue
			}
			nD++
			basePath := an.XPath(fdBase)
			dirty := an.IPSites(fn, nil, true, func(in ssa.Instruction, env *an.IPEnv) bool {
				st, ok := in.(*ssa.Store)
				if !ok || !c20IsConst(st.Val, x.kDy) {
					return false
				}
				f, b := an.FieldOf(st.Addr)
				return f == fState && an.IPPath(b, env) == basePath
			})
			// the mutator call sits in fn itself; when fn is a helper that is
			// always entered with the descriptor already marked, that counts too
			okDirty := len(dirty) > 0 && an.MustPrecede(fn, call, dirty)
			if !okDirty {
				okDirty = an.IPGuarded(p.PkgFuncs(pk), call, func(g *ssa.Function, site ssa.Instruction) bool {
					if g == fn {
						return false
					}
					sc, ok := site.(ssa.CallInstruction)
					if !ok {
						return false
					}
					// descriptor passed to the helper
					var bp string
					if rv := an.Recv(sc); rv != nil {
						bp = an.XPath(rv)
					}
					d := an.IPSites(g, nil, true, func(in ssa.Instruction, env *an.IPEnv) bool {
						st, ok := in.(*ssa.Store)
						if !ok || !c20IsConst(st.Val, x.kDy) {
							return false
						}
						f, b := an.FieldOf(st.Addr)
						return f == fState && an.IPPath(b, env) == bp
					})
					return len(d) > 0 && an.MustPrecede(g, site, d)
				})
			}
			c.Check(okDirty, "O5", "R-DOM", c20KeyName(fn), "dirty<="+an.Callee(call).Name, call.Pos(),
				"descriptor marked dirty before the DagModifier is modified", "DagModifier."+an.Callee(call).Name+" is reached without marking the descriptor dirty: after an earlier flush the next Flush/Close skips the new data (the change is never stored in the file, its directory or the root)")
		}
	}
	c.Min("O5 DagModifier mutator calls", nD, 1)
}
