package an

// Inter-procedural helpers for the non-lock rules: value provenance, "action
// performed" sites and call-site guards that see through same-module static
// callees (helpers extracted from, or inlined into, an anchored function).

import (
	"go/token"
	"go/types"
	"strings"

	"golang.org/x/tools/go/ssa"
)

// IPEnv binds the parameters of a callee to the actual arguments of the call
// through which the analysis entered it.
type IPEnv struct {
	Fn   *ssa.Function
	Call ssa.CallInstruction
	Up   *IPEnv
}

func (e *IPEnv) depth() int {
	n := 0
	for ; e != nil; e = e.Up {
		n++
	}
	return n
}

func (e *IPEnv) has(fn *ssa.Function) bool {
	for ; e != nil; e = e.Up {
		if e.Fn == fn {
			return true
		}
	}
	return false
}

// Actual returns the caller-side value bound to parameter prm (nil if unknown).
func (e *IPEnv) Actual(prm *ssa.Parameter) ssa.Value {
	if e == nil || prm.Parent() != e.Fn {
		return nil
	}
	as := actuals(e.Call, e.Fn)
	if as == nil {
		return nil
	}
	for i, q := range e.Fn.Params {
		if q == prm {
			return as[i]
		}
	}
	return nil
}

const ipMaxDepth = 3

// ipCallee: the same-module static callee of a call that the analysis may
// enter (has a body, not already on the stack, depth bounded).
func ipCallee(c ssa.CallInstruction, env *IPEnv) *ssa.Function {
	if _, isGo := c.(*ssa.Go); isGo {
		return nil
	}
	if c.Common().IsInvoke() {
		return nil
	}
	var h *ssa.Function
	switch v := c.Common().Value.(type) {
	case *ssa.Function:
		h = v
	default:
		return nil
	}
	if h.Blocks == nil || h.Pkg == nil || !strings.HasPrefix(h.Pkg.Pkg.Path(), Mod) {
		return nil
	}
	// helpers of the same package only: what another package does is that
	// package's contract, and the quick tier has no bodies for it anyway
	top := c.Parent()
	for top.Parent() != nil {
		top = top.Parent()
	}
	if top.Pkg != h.Pkg {
		return nil
	}
	if env.has(h) || env.depth() >= ipMaxDepth {
		return nil
	}
	if actuals(c, h) == nil {
		return nil
	}
	return h
}

// IPVal is a value together with the binding environment of its function.
type IPVal struct {
	V   ssa.Value
	Env *IPEnv
}

// IPPath is XPath expressed in the terms of the outermost function: a path
// rooted at a parameter of a helper is rewritten to the path of the argument.
func IPPath(v ssa.Value, env *IPEnv) string {
	s := XPath(v)
	if env == nil || !strings.HasPrefix(s, "p:") {
		return s
	}
	root, rest := s, ""
	if i := strings.IndexByte(s, '.'); i >= 0 {
		root, rest = s[:i], s[i:]
	}
	for _, prm := range env.Fn.Params {
		if "p:"+prm.Name() == root {
			if a := env.Actual(prm); a != nil {
				return IPPath(a, env.Up) + rest
			}
		}
	}
	return s
}

// IPRoots is Roots continued through same-package static callees: a value
// returned by a helper derives from what the helper returns, a parameter of a
// helper from the argument it was called with.
func IPRoots(v ssa.Value, env *IPEnv, o *FlowOpts) []IPVal {
	var out []IPVal
	seen := map[ssa.Value]bool{}
	var walk func(v ssa.Value, env *IPEnv)
	walk = func(v ssa.Value, env *IPEnv) {
		for _, r := range Roots(v, o) {
			if seen[r] {
				continue
			}
			seen[r] = true
			if o != nil && o.StopAt != nil && o.StopAt(r) {
				out = append(out, IPVal{r, env})
				continue
			}
			// field of a struct *value* (a pair carried in a small struct):
			// continue with what was stored into that field where the struct
			// was built
			if sv, idx, ok := structFieldRead(r); ok {
				if vals := ipStructField(sv, idx, env, o); len(vals) > 0 {
					for _, fv := range vals {
						walk(fv.V, fv.Env)
					}
					continue
				}
			}
			switch x := r.(type) {
			case *ssa.Parameter:
				if a := env.Actual(x); a != nil {
					walk(a, env.Up)
					continue
				}
			case *ssa.Call:
				if h := ipCallee(x, env); h != nil && x.Common().Signature().Results().Len() == 1 {
					if ipReturns(h, 0, &IPEnv{h, x, env}, walk) {
						continue
					}
				}
			case *ssa.Extract:
				if call, ok := x.Tuple.(*ssa.Call); ok {
					if h := ipCallee(call, env); h != nil {
						if ipReturns(h, x.Index, &IPEnv{h, call, env}, walk) {
							continue
						}
					}
				}
			}
			out = append(out, IPVal{r, env})
		}
	}
	walk(v, env)
	return out
}

func ipReturns(h *ssa.Function, idx int, env *IPEnv, walk func(ssa.Value, *IPEnv)) bool {
	n := 0
	for _, r := range Returns(h) {
		if idx >= len(r.Results) || !Reaches(h, nil, r, nil, nil) {
			continue
		}
		// values returned next to a non-nil error are not used by a caller
		// that tests the error
		if idx != len(r.Results)-1 && errKind(h, r) == ekNonNil {
			continue
		}
		n++
		walk(r.Results[idx], env)
	}
	return n > 0
}

// IPSites returns the instructions of fn that perform an action: instructions
// satisfying pred, and calls to same-package static callees that perform it —
// on every normal path of the callee when must is set (a must-precede /
// must-follow obligation is met by a helper that always does it), on some
// path otherwise. pred receives the environment so that it can compare IPPath
// identities with the outermost function's values.
func IPSites(fn *ssa.Function, env *IPEnv, must bool, pred func(in ssa.Instruction, env *IPEnv) bool) []ssa.Instruction {
	var out []ssa.Instruction
	Instrs(fn, func(in ssa.Instruction) {
		if pred(in, env) {
			out = append(out, in)
			return
		}
		c, ok := in.(ssa.CallInstruction)
		if !ok {
			return
		}
		h := ipCallee(c, env)
		if h == nil {
			return
		}
		henv := &IPEnv{h, c, env}
		inner := IPSites(h, henv, must, pred)
		if len(inner) == 0 {
			return
		}
		if must {
			// on every normal (non-error) path of the helper
			for _, r := range Returns(h) {
				if Reaches(h, nil, r, nil, nil) && errKind(h, r) != ekNonNil && !MustPrecede(h, r, inner) {
					return
				}
			}
		}
		out = append(out, in)
	})
	return out
}

// IPSitesExcused is IPSites(must) where a helper may skip the action on
// paths that cross an excusing edge of its own (e.g. `if x.opt == nil`):
// excuse(fn) gives those edges per function.
func IPSitesExcused(fn *ssa.Function, env *IPEnv, pred func(in ssa.Instruction, env *IPEnv) bool, excuse func(fn *ssa.Function) EdgeSet) []ssa.Instruction {
	var out []ssa.Instruction
	Instrs(fn, func(in ssa.Instruction) {
		if pred(in, env) {
			out = append(out, in)
			return
		}
		c, ok := in.(ssa.CallInstruction)
		if !ok {
			return
		}
		h := ipCallee(c, env)
		if h == nil {
			return
		}
		inner := IPSitesExcused(h, &IPEnv{h, c, env}, pred, excuse)
		if len(inner) == 0 {
			return
		}
		blocked := map[ssa.Instruction]bool{}
		for _, i := range inner {
			blocked[i] = true
		}
		cut := excuse(h)
		for _, r := range Returns(h) {
			if errKind(h, r) != ekNonNil && Reaches(h, nil, r, cut, blocked) {
				return
			}
		}
		out = append(out, in)
	})
	return out
}

// IPInner lists the primitive instructions (with their environments) behind
// the sites of IPSites, for rules that need to look at the actual construct.
func IPInner(fn *ssa.Function, env *IPEnv, pred func(in ssa.Instruction, env *IPEnv) bool) []IPInstr {
	var out []IPInstr
	Instrs(fn, func(in ssa.Instruction) {
		if pred(in, env) {
			out = append(out, IPInstr{in, env})
			return
		}
		if c, ok := in.(ssa.CallInstruction); ok {
			if h := ipCallee(c, env); h != nil {
				out = append(out, IPInner(h, &IPEnv{h, c, env}, pred)...)
			}
		}
	})
	return out
}

type IPInstr struct {
	In  ssa.Instruction
	Env *IPEnv
}

// Outer lifts an inner instruction to the instruction of the outermost
// function through which it is reached (itself when Env is nil).
func (i IPInstr) Outer() ssa.Instruction {
	in := i.In
	for e := i.Env; e != nil; e = e.Up {
		in = e.Call
	}
	return in
}

// IPClosure returns fn and the same-package static callees reachable from it
// (bounded depth), for existence ("somewhere in the function or its helpers")
// rules.
func IPClosure(fn *ssa.Function) []*ssa.Function {
	seen := map[*ssa.Function]bool{fn: true}
	out := []*ssa.Function{fn}
	var visit func(f *ssa.Function, env *IPEnv)
	visit = func(f *ssa.Function, env *IPEnv) {
		Instrs(f, func(in ssa.Instruction) {
			if c, ok := in.(ssa.CallInstruction); ok {
				if h := ipCallee(c, env); h != nil && !seen[h] {
					seen[h] = true
					out = append(out, h)
					visit(h, &IPEnv{h, c, env})
				}
			}
		})
	}
	visit(fn, nil)
	return out
}

// IPCallSites lists the static call sites of fn among funcs; open reports
// that fn can also be entered in ways the list does not show (exported,
// used as a value, or called dynamically).
func IPCallSites(funcs []*ssa.Function, fn *ssa.Function) (sites []ssa.CallInstruction, open bool) {
	open = exportedEntry(fn)
	for _, g := range funcs {
		Instrs(g, func(in ssa.Instruction) {
			if c, ok := in.(ssa.CallInstruction); ok {
				if f, ok := c.Common().Value.(*ssa.Function); ok && f == fn {
					sites = append(sites, c)
					return
				}
			}
			var ops []*ssa.Value
			for _, op := range in.Operands(ops) {
				if op != nil && *op == ssa.Value(fn) {
					if c, ok := in.(ssa.CallInstruction); !ok || c.Common().Value != ssa.Value(fn) {
						open = true
					}
				}
			}
		})
	}
	return
}

// IPGuarded: site (an instruction of fn) is guarded — guarded(fn', site')
// holds for it, or fn is a closed helper and the property holds at every one
// of its call sites (recursively): a site inside a helper is guarded by G
// when every call of the helper is guarded by G.
func IPGuarded(funcs []*ssa.Function, site ssa.Instruction, guarded func(fn *ssa.Function, site ssa.Instruction) bool) bool {
	return ipGuarded(funcs, site, guarded, 0)
}

func ipGuarded(funcs []*ssa.Function, site ssa.Instruction, guarded func(*ssa.Function, ssa.Instruction) bool, depth int) bool {
	fn := site.Parent()
	if guarded(fn, site) {
		return true
	}
	if depth >= ipMaxDepth || fn.Parent() != nil {
		return false
	}
	sites, open := IPCallSites(funcs, fn)
	if open || len(sites) == 0 {
		return false
	}
	for _, c := range sites {
		if !ipGuarded(funcs, c, guarded, depth+1) {
			return false
		}
	}
	return true
}

// structFieldRead recognises a read of field idx of a struct value: an
// ssa.Field, or a load of a field of a local struct cell. It returns the
// struct value (for a cell: the cell itself).
func structFieldRead(v ssa.Value) (ssa.Value, int, bool) {
	switch x := v.(type) {
	case *ssa.Field:
		return x.X, x.Field, true
	case *ssa.UnOp:
		if x.Op != token.MUL {
			return nil, 0, false
		}
		fa, ok := x.X.(*ssa.FieldAddr)
		if !ok {
			return nil, 0, false
		}
		if a, ok := fa.X.(*ssa.Alloc); ok {
			if _, isStruct := deref(a.Type()).Underlying().(*types.Struct); isStruct {
				return a, fa.Field, true
			}
		}
	}
	return nil, 0, false
}

// ipStructField returns the values stored into field idx of struct value sv:
// for a local cell, the stores to that field (composite literal) or, when the
// cell holds a whole struct value (spilled parameter, copy), the field of
// that value — followed through helper results and parameters.
func ipStructField(sv ssa.Value, idx int, env *IPEnv, o *FlowOpts) []IPVal {
	var out []IPVal
	var fromCell func(a *ssa.Alloc, env *IPEnv, depth int)
	var fromValue func(v ssa.Value, env *IPEnv, depth int)
	fromCell = func(a *ssa.Alloc, env *IPEnv, depth int) {
		if a.Referrers() == nil || depth > 6 {
			return
		}
		n := 0
		for _, r := range *a.Referrers() {
			if fa, ok := r.(*ssa.FieldAddr); ok && fa.Field == idx && fa.Referrers() != nil {
				for _, u := range *fa.Referrers() {
					if st, ok := u.(*ssa.Store); ok && st.Addr == fa {
						out = append(out, IPVal{st.Val, env})
						n++
					}
				}
			}
		}
		if n > 0 {
			return
		}
		for _, r := range *a.Referrers() {
			if st, ok := r.(*ssa.Store); ok && st.Addr == ssa.Value(a) {
				fromValue(st.Val, env, depth+1)
			}
		}
	}
	fromValue = func(v ssa.Value, env *IPEnv, depth int) {
		if depth > 6 {
			return
		}
		for _, r := range IPRoots(v, env, o) {
			switch x := r.V.(type) {
			case *ssa.Alloc:
				fromCell(x, r.Env, depth+1)
			case *ssa.UnOp:
				if a, ok := x.X.(*ssa.Alloc); ok && x.Op == token.MUL {
					fromCell(a, r.Env, depth+1)
				}
			}
		}
	}
	if a, ok := sv.(*ssa.Alloc); ok {
		fromCell(a, env, 0)
	} else {
		fromValue(sv, env, 0)
	}
	return out
}

// IPUsesParam reports whether v derives (also through a field of a struct
// value) from a parameter of fn that no environment binds.
func IPUsesParam(v ssa.Value, fn *ssa.Function) bool {
	for _, r := range IPRoots(v, nil, nil) {
		if prm, ok := r.V.(*ssa.Parameter); ok && prm.Parent() == fn {
			return true
		}
		if sv, _, ok := structFieldRead(r.V); ok {
			if a, ok := sv.(*ssa.Alloc); ok && a.Referrers() != nil {
				for _, rr := range *a.Referrers() {
					if st, ok := rr.(*ssa.Store); ok && st.Addr == ssa.Value(a) {
						if prm, ok := st.Val.(*ssa.Parameter); ok && prm.Parent() == fn {
							return true
						}
					}
				}
			} else if prm, ok := sv.(*ssa.Parameter); ok && prm.Parent() == fn {
				return true
			}
		}
	}
	return false
}
