package an

// Inter-procedural extension of the lock-state dataflow of lock.go.
//
// LockIP analyses a *scope* (normally all functions of one package) and gives
//
//   - call resolution inside the scope: static callees, interface calls
//     resolved to every implementing method of the scope (CHA), function
//     literals passed as arguments (treated as synchronous callbacks) and
//     deferred calls;
//   - per function summaries: locks still held at return ("returns holding"),
//     caller-held locks released by the function, and the transitive set of
//     locks the function may acquire while it runs (with a witness chain);
//   - may-held lock states per instruction (entry state empty; closures start
//     with the state of the site that invokes them) for re-entrancy and
//     lock-order rules;
//   - must-held lock states per instruction with "caller holds" entry states:
//     an unexported function that is only called inside the scope starts with
//     the meet of the states at all its call sites, everything reachable from
//     outside starts with no lock.
//
// Lock identity is the canonical access path of the mutex (PathOf); across a
// call, paths rooted at a parameter of the callee are rewritten to the path of
// the actual argument. A path that cannot be rewritten loses its identity and
// keeps only its class ("Type.field").

import (
	"go/token"
	"go/types"
	"sort"
	"strings"

	"golang.org/x/tools/go/ssa"
)

// LockAcq is one (possibly transitive) lock acquisition.
type LockAcq struct {
	Path  string // path in the terms of the function it is reported for; "" = identity unknown
	Class string // "File.nodeLock"
	Mode  int
	Site  ssa.Instruction // the primitive Lock/RLock call
	Via   []string        // call chain, outermost first, ending in the function containing Site
}

func (a LockAcq) key() string { return a.Path + "|" + a.Class + "|" + modeStr(a.Mode) }

func modeStr(m int) string {
	switch m {
	case LRead:
		return "R"
	case LWrite:
		return "W"
	}
	return "-"
}

// ModeStr renders a lock mode.
func ModeStr(m int) string { return modeStr(m) }

// LockTarget is one possible callee of a call site.
type LockTarget struct {
	Fn *ssa.Function
	// Kind: "static", "invoke" (CHA inside the scope), "closure" (function
	// literal called directly), "callback" (function literal passed as an
	// argument: assumed to be called synchronously, zero or more times)
	Kind string
}

type lockSum struct {
	// locks held at return with entry state empty, for returns whose error
	// result is nil / non-nil (both contain the returns of unknown kind and
	// all returns of functions without error result)
	ok, err         exitSum
	mayRel, mustRel map[string]bool // caller-held locks released
	acq             map[string]LockAcq
}

type LockIP struct {
	P       *Prog
	Funcs   []*ssa.Function
	inScope map[*ssa.Function]bool
	sum     map[*ssa.Function]*lockSum
	classOf map[string]string // lock path -> class
	may     map[*ssa.Function]*LockFacts
	must    map[*ssa.Function]*LockFacts
	entry   map[*ssa.Function]LockState // must-held at entry (nil = never called inside the scope)
	root    map[*ssa.Function]bool      // reachable from outside the scope / as a goroutine / as a stored value
	impls   map[string][]*ssa.Function
	// AsyncCallbacks: callees whose function-typed arguments run later, not
	// during the call (time.AfterFunc ...)
	async []Matcher
	named []*types.Named
	reacq map[reacqKey]*LockFacts
	ctor  map[*ssa.Function]map[string]string
	alias map[*ssa.Function]map[string]string
	// caller whose alias table normalises translated paths (set by toCaller)
	curCaller *ssa.Function
}

// NewLockIP analyses the given functions (closures included automatically).
func NewLockIP(p *Prog, funcs []*ssa.Function) *LockIP {
	ip := &LockIP{P: p, inScope: map[*ssa.Function]bool{}, sum: map[*ssa.Function]*lockSum{}, classOf: map[string]string{},
		may: map[*ssa.Function]*LockFacts{}, must: map[*ssa.Function]*LockFacts{}, entry: map[*ssa.Function]LockState{},
		root: map[*ssa.Function]bool{}, impls: map[string][]*ssa.Function{},
		reacq: map[reacqKey]*LockFacts{},
		ctor:  map[*ssa.Function]map[string]string{}, alias: map[*ssa.Function]map[string]string{},
		async: []Matcher{M("time", "", "AfterFunc"), M("context", "", "AfterFunc")}}
	for _, f := range funcs {
		if !ip.inScope[f] && f.Blocks != nil {
			ip.inScope[f] = true
			ip.Funcs = append(ip.Funcs, f)
		}
	}
	pkgs := map[*types.Package]bool{}
	for _, f := range ip.Funcs {
		if f.Pkg != nil {
			pkgs[f.Pkg.Pkg] = true
		}
	}
	for pk := range pkgs {
		sc := pk.Scope()
		for _, n := range sc.Names() {
			if tn, ok := sc.Lookup(n).(*types.TypeName); ok {
				if nm, ok := tn.Type().(*types.Named); ok && !types.IsInterface(nm) && nm.TypeParams().Len() == 0 {
					ip.named = append(ip.named, nm)
				}
			}
		}
	}
	sort.Slice(ip.named, func(i, j int) bool { return ip.named[i].Obj().Name() < ip.named[j].Obj().Name() })
	for _, f := range ip.Funcs {
		ip.sum[f] = &lockSum{ok: exitSum{LockState{}, LockState{}}, err: exitSum{LockState{}, LockState{}}, mayRel: map[string]bool{}, mustRel: map[string]bool{}, acq: map[string]LockAcq{}}
	}
	ip.summarise()
	ip.acquisitions()
	ip.mayStates()
	ip.mustStates()
	return ip
}

// ---- primitive operations ----

// lockClass names the class of a mutex value: "Type.field" for a field of a
// named struct, "pkg.var" for a global, else the type name.
func lockClass(v ssa.Value) string {
	switch x := v.(type) {
	case *ssa.FieldAddr:
		f, _ := FieldOf(x)
		return structName(deref(x.X.Type())) + "." + f.Name()
	case *ssa.Global:
		return x.Pkg.Pkg.Name() + "." + x.Name()
	case *ssa.UnOp:
		if x.Op == token.MUL {
			return lockClass(x.X)
		}
	}
	return "?"
}

func structName(t types.Type) string {
	if n, ok := types.Unalias(t).(*types.Named); ok {
		return n.Obj().Name()
	}
	return "struct"
}

// XPath is PathOf with two refinements needed across closures: a load of a
// captured variable (free variable bound to a local cell of the enclosing
// function) is named like the same load in the enclosing function, i.e. by
// the single value stored into the cell.
func XPath(v ssa.Value) string {
	switch x := v.(type) {
	case *ssa.FieldAddr:
		f, _ := FieldOf(x)
		return XPath(x.X) + "." + f.Name()
	case *ssa.Field:
		f, _ := FieldOf(x)
		return XPath(x.X) + "." + f.Name()
	case *ssa.UnOp:
		if x.Op == token.MUL {
			if cell := CellOf(x.X); cell != nil {
				if sts := storesTo(cell); len(sts) == 1 {
					return XPath(sts[0].Val)
				}
				return PathOf(cell)
			}
			return XPath(x.X)
		}
	case *ssa.FreeVar:
		if b := bindingOf(x); b != nil {
			return XPath(b)
		}
	case *ssa.ChangeType:
		return XPath(x.X)
	case *ssa.MakeInterface:
		return XPath(x.X)
	case *ssa.ChangeInterface:
		return XPath(x.X)
	case *ssa.IndexAddr:
		return XPath(x.X) + "[" + XPath(x.Index) + "]"
	case *ssa.Lookup:
		return XPath(x.X) + "[" + XPath(x.Index) + "]"
	}
	return PathOf(v)
}

// XSyncModel is SyncModel with XPath lock identities.
func XSyncModel(c ssa.CallInstruction) []LockOp {
	ops := SyncModel(c)
	if len(ops) == 1 {
		ops[0].Path = XPath(Recv(c))
	}
	return ops
}

// prim returns the primitive sync operation of c, if any.
func (ip *LockIP) prim(c ssa.CallInstruction) (LockOp, string, bool) {
	ops := XSyncModel(c)
	if len(ops) != 1 {
		return LockOp{}, "", false
	}
	cl := lockClass(Recv(c))
	if _, ok := ip.classOf[ops[0].Path]; !ok {
		ip.classOf[ops[0].Path] = cl
	}
	return ops[0], cl, true
}

// ClassOf returns the class of a lock path seen by the analysis.
func (ip *LockIP) ClassOf(path string) string {
	if c, ok := ip.classOf[path]; ok {
		return c
	}
	// derive from the last two path elements is impossible without types;
	// unknown paths have no class
	return "?"
}

// ---- call resolution ----

func isFuncLit(f *ssa.Function) bool { return f != nil && f.Parent() != nil && f.Synthetic == "" }

// Targets resolves the in-scope callees of a call-like instruction.
func (ip *LockIP) Targets(c ssa.CallInstruction) []LockTarget {
	cc := c.Common()
	var out []LockTarget
	if cc.IsInvoke() {
		for _, f := range ip.implementers(cc.Value.Type(), cc.Method) {
			out = append(out, LockTarget{f, "invoke"})
		}
	} else {
		switch v := cc.Value.(type) {
		case *ssa.Function:
			if ip.inScope[v] {
				out = append(out, LockTarget{v, "static"})
			} else if o := v.Origin(); o != nil && ip.inScope[o] {
				out = append(out, LockTarget{o, "static"})
			}
		case *ssa.MakeClosure:
			if f, ok := v.Fn.(*ssa.Function); ok && ip.inScope[f] && isFuncLit(f) {
				out = append(out, LockTarget{f, "closure"})
			}
		default:
			// call of a function value held in a local: a literal stored once
			for _, r := range Roots(cc.Value, nil) {
				if mc, ok := r.(*ssa.MakeClosure); ok {
					if f, ok := mc.Fn.(*ssa.Function); ok && ip.inScope[f] && isFuncLit(f) {
						out = append(out, LockTarget{f, "closure"})
					}
				}
			}
		}
	}
	// function literals passed as arguments: synchronous callbacks
	if _, isGo := c.(*ssa.Go); !isGo {
		ci := Callee(c)
		asyncCallee := false
		for _, m := range ip.async {
			if m.Match(ci) {
				asyncCallee = true
			}
		}
		if !asyncCallee {
			for _, a := range cc.Args {
				if mc, ok := a.(*ssa.MakeClosure); ok {
					if f, ok := mc.Fn.(*ssa.Function); ok && ip.inScope[f] && isFuncLit(f) {
						out = append(out, LockTarget{f, "callback"})
					}
				}
			}
		}
	}
	return out
}

func (ip *LockIP) implementers(recv types.Type, m *types.Func) []*ssa.Function {
	iface, ok := recv.Underlying().(*types.Interface)
	if !ok {
		return nil
	}
	k := recv.String() + "." + m.Name()
	if r, ok := ip.impls[k]; ok {
		return r
	}
	var out []*ssa.Function
	seen := map[*ssa.Function]bool{}
	for _, nm := range ip.named {
		for _, t := range []types.Type{nm, types.NewPointer(nm)} {
			if !types.Implements(t, iface) {
				continue
			}
			sel := ip.P.SSA.MethodSets.MethodSet(t).Lookup(m.Pkg(), m.Name())
			if sel == nil {
				continue
			}
			f := ip.P.SSA.MethodValue(sel)
			if f == nil {
				continue
			}
			// wrappers for promoted / value-receiver methods: use the declared method
			if f.Synthetic != "" {
				if o, ok := sel.Obj().(*types.Func); ok {
					if g := ip.P.FuncOf(o); g != nil {
						f = g
					}
				}
			}
			if ip.inScope[f] && !seen[f] {
				seen[f] = true
				out = append(out, f)
			}
		}
	}
	ip.impls[k] = out
	return out
}

// ---- path translation ----

func splitRoot(path string) (root, rest string) {
	if i := strings.IndexByte(path, '.'); i >= 0 && !strings.HasPrefix(path, "g:") {
		return path[:i], path[i:]
	}
	if strings.HasPrefix(path, "g:") {
		return path, ""
	}
	return path, ""
}

// actuals maps callee parameter index -> actual argument value.
func actuals(c ssa.CallInstruction, callee *ssa.Function) []ssa.Value {
	cc := c.Common()
	var as []ssa.Value
	if cc.IsInvoke() {
		as = append(as, cc.Value)
		as = append(as, cc.Args...)
	} else {
		as = cc.Args
	}
	if len(as) != len(callee.Params) {
		return nil
	}
	return as
}

// ctorFields: when every non-nil first result of fn is one object allocated
// in fn, the fields of that object that are initialised (once) from a value
// reachable from fn's parameters: field name -> parameter-rooted path.
func (ip *LockIP) ctorFields(fn *ssa.Function) map[string]string {
	if r, ok := ip.ctor[fn]; ok {
		return r
	}
	ip.ctor[fn] = nil
	var obj *ssa.Alloc
	for _, r := range Returns(fn) {
		if len(r.Results) == 0 {
			return nil
		}
		for _, root := range Roots(r.Results[0], nil) {
			switch x := root.(type) {
			case *ssa.Const:
				if !x.IsNil() {
					return nil
				}
			case *ssa.Alloc:
				if obj != nil && obj != x {
					return nil
				}
				obj = x
			default:
				return nil
			}
		}
	}
	if obj == nil || obj.Referrers() == nil {
		return nil
	}
	out := map[string]string{}
	n := map[string]int{}
	for _, r := range *obj.Referrers() {
		fa, ok := r.(*ssa.FieldAddr)
		if !ok || fa.Referrers() == nil {
			continue
		}
		f, _ := FieldOf(fa)
		for _, u := range *fa.Referrers() {
			if st, ok := u.(*ssa.Store); ok && st.Addr == fa {
				n[f.Name()]++
				if p := XPath(st.Val); strings.HasPrefix(p, "p:") {
					out[f.Name()] = p
				}
			}
		}
	}
	for f := range out {
		if n[f] != 1 {
			delete(out, f)
		}
	}
	ip.ctor[fn] = out
	return out
}

// aliases of fn: path of "<result of constructor call>.<field>" -> path of the
// argument the constructor stored there (fd.inode == fi after fd := fi.Open()).
func (ip *LockIP) aliases(fn *ssa.Function) map[string]string {
	if a, ok := ip.alias[fn]; ok {
		return a
	}
	a := map[string]string{}
	ip.alias[fn] = a
	Instrs(fn, func(in ssa.Instruction) {
		call, ok := in.(*ssa.Call)
		if !ok {
			return
		}
		g := Callee(call).Static
		if g == nil || !ip.inScope[g] || isFuncLit(g) {
			return
		}
		cf := ip.ctorFields(g)
		if len(cf) == 0 {
			return
		}
		var res []ssa.Value
		if call.Common().Signature().Results().Len() == 1 {
			res = []ssa.Value{call}
		} else {
			res = Result(call, 0)
		}
		as := actuals(call, g)
		if as == nil {
			return
		}
		for _, r := range res {
			for f, pp := range cf {
				root, rest := splitRoot(pp)
				for i, prm := range g.Params {
					if "p:"+prm.Name() == root {
						a[XPath(r)+"."+f] = XPath(as[i]) + rest
					}
				}
			}
		}
	})
	return a
}

// norm rewrites the longest aliased prefix of path.
func (ip *LockIP) norm(fn *ssa.Function, path string) string {
	top := fn
	for top.Parent() != nil && isFuncLit(top) {
		top = top.Parent()
	}
	al := ip.aliases(top)
	if len(al) == 0 {
		return path
	}
	for i := 0; i < 3; i++ {
		best := ""
		for k := range al {
			if (path == k || strings.HasPrefix(path, k+".")) && len(k) > len(best) {
				best = k
			}
		}
		if best == "" {
			break
		}
		path = al[best] + path[len(best):]
	}
	return path
}

// toCaller rewrites a path of callee t into the caller's terms at call c.
func (ip *LockIP) toCaller(c ssa.CallInstruction, t LockTarget, path string) string {
	ip.curCaller = c.Parent()
	defer func() { ip.curCaller = nil }()
	return ip.toCaller0(c, t, path)
}

func (ip *LockIP) toCaller0(c ssa.CallInstruction, t LockTarget, path string) string {
	if path == "" {
		return ""
	}
	if strings.HasPrefix(path, "g:") {
		return path
	}
	own := false
	root, rest := splitRoot(path)
	if strings.HasPrefix(root, "p:") {
		for _, p := range t.Fn.Params {
			if "p:"+p.Name() == root {
				own = true
			}
		}
	}
	if t.Kind == "closure" || t.Kind == "callback" || (isFuncLit(t.Fn) && !own) {
		// paths of a function literal are already expressed in the terms of
		// the enclosing function (free variables are resolved by PathOf),
		// except those rooted at the literal's own parameters
		if own {
			if t.Kind == "closure" {
				if as := actuals(c, t.Fn); as != nil {
					for i, p := range t.Fn.Params {
						if "p:"+p.Name() == root {
							return ip.note(XPath(as[i])+rest, path)
						}
					}
				}
			}
			return ""
		}
		return path
	}
	if !own {
		return ""
	}
	as := actuals(c, t.Fn)
	if as == nil {
		return ""
	}
	for i, p := range t.Fn.Params {
		if "p:"+p.Name() == root {
			return ip.note(XPath(as[i])+rest, path)
		}
	}
	return ""
}

// maxPathDepth bounds access paths built by repeated translation through
// recursive calls (d.parent.parent...); deeper paths lose their identity.
const maxPathDepth = 7

func (ip *LockIP) note(newPath, oldPath string) string {
	if strings.Count(newPath, ".") > maxPathDepth {
		return ""
	}
	if ip.curCaller != nil {
		newPath = ip.norm(ip.curCaller, newPath)
	}
	if cl, ok := ip.classOf[oldPath]; ok {
		if _, ok2 := ip.classOf[newPath]; !ok2 {
			ip.classOf[newPath] = cl
		}
	}
	return newPath
}

// toCallee rewrites a caller path into callee terms (inverse of toCaller);
// "" when the lock is not reachable from the callee's parameters.
func (ip *LockIP) toCallee(c ssa.CallInstruction, t LockTarget, path string) string {
	if strings.HasPrefix(path, "g:") {
		return path
	}
	if t.Kind == "closure" || t.Kind == "callback" {
		return path
	}
	as := actuals(c, t.Fn)
	if as == nil {
		return ""
	}
	best := ""
	for i, p := range t.Fn.Params {
		if p.Name() == "" || p.Name() == "_" {
			continue
		}
		ap := XPath(as[i])
		if path == ap || strings.HasPrefix(path, ap+".") {
			cand := "p:" + p.Name() + path[len(ap):]
			if best == "" || len(cand) < len(best) {
				best = cand
			}
		}
	}
	if best != "" {
		ip.note(best, path)
	}
	return best
}

// ---- summaries: exit states and caller-held releases ----

type exitSum struct{ may, must LockState } // locks held at return (callee terms)

// error-result kinds of a return
const (
	ekNone    = iota // function has no error result
	ekUnknown        // may be nil or not
	ekNil
	ekNonNil
)

type callEffect struct {
	relMay, relMust map[string]bool
	acqMay, acqMust LockState
	// locks held after the call only when its error result is nil
	// (dropOnErr) or only when it is non-nil (dropOnOk)
	dropOnErr, dropOnOk []string
}

func newEffect() callEffect {
	return callEffect{relMay: map[string]bool{}, relMust: map[string]bool{}, acqMay: LockState{}, acqMust: LockState{}}
}

func (ip *LockIP) effect(c ssa.CallInstruction) callEffect {
	if op, _, ok := ip.prim(c); ok {
		e := newEffect()
		if op.Acquire {
			e.acqMay[op.Path], e.acqMust[op.Path] = op.Mode, op.Mode
		} else {
			e.relMay[op.Path], e.relMust[op.Path] = true, true
		}
		return e
	}
	ts := ip.Targets(c)
	if len(ts) == 0 {
		if e, ok := ip.boundSyncEffect(c); ok {
			return e
		}
		return newEffect()
	}
	sums := make([]*lockSum, len(ts))
	for i, t := range ts {
		sums[i] = ip.sum[t.Fn]
	}
	return ip.effectOf(c, ts, sums)
}

func (ip *LockIP) effectOf(c ssa.CallInstruction, ts []LockTarget, sums []*lockSum) callEffect {
	e := newEffect()
	first := true
	definite := 0
	okMay, errMay := map[string]bool{}, map[string]bool{}
	for i, t := range ts {
		s := sums[i]
		if s == nil {
			continue
		}
		rm, am := map[string]bool{}, LockState{}
		for p := range s.mayRel {
			if q := ip.toCaller(c, t, p); q != "" {
				e.relMay[q] = true
			}
		}
		for p, m := range s.ok.may {
			if q := ip.toCaller(c, t, p); q != "" {
				okMay[q] = true
				if e.acqMay[q] < m {
					e.acqMay[q] = m
				}
			}
		}
		for p, m := range s.err.may {
			if q := ip.toCaller(c, t, p); q != "" {
				errMay[q] = true
				if e.acqMay[q] < m {
					e.acqMay[q] = m
				}
			}
		}
		if t.Kind == "callback" {
			continue // may run zero times: no definite effect
		}
		definite++
		for p := range s.mustRel {
			if q := ip.toCaller(c, t, p); q != "" {
				rm[q] = true
			}
		}
		for p, m := range s.ok.must {
			m2 := s.err.must[p]
			if m2 < m {
				m = m2
			}
			if m == LNone {
				continue
			}
			if q := ip.toCaller(c, t, p); q != "" {
				am[q] = m
			}
		}
		if first {
			e.relMust, e.acqMust, first = rm, am, false
		} else {
			for p := range e.relMust {
				if !rm[p] {
					delete(e.relMust, p)
				}
			}
			for p, m := range e.acqMust {
				if am[p] < m {
					if am[p] == LNone {
						delete(e.acqMust, p)
					} else {
						e.acqMust[p] = am[p]
					}
				}
			}
		}
	}
	if definite == 0 {
		e.relMust, e.acqMust = map[string]bool{}, LockState{}
	}
	for p := range e.acqMay {
		if !errMay[p] {
			e.dropOnErr = append(e.dropOnErr, p)
		}
		if !okMay[p] {
			e.dropOnOk = append(e.dropOnOk, p)
		}
	}
	return e
}

// apply the effect of a (non deferred, non go) call to a state.
//
// In may mode a callee that may release a caller-held lock (descriptor Close
// releasing what Open took) is assumed to release it: the may-held set is
// used to report re-entrancy and a stale entry would be a false alarm.
func applyEffect(st LockState, e callEffect, must bool) {
	for p := range e.relMay {
		st[p] = LNone
	}
	acq := e.acqMay
	if must {
		acq = e.acqMust
	}
	for p, m := range acq {
		if st[p] < m {
			st[p] = m
		}
	}
}

// flow is the lock-state dataflow of lock.go (Locks) extended with callee
// summaries, infeasible (cut) edges and error-correlated callee effects: a
// lock a callee holds only on its nil-error returns is dropped on the edge on
// which the caller has tested the error non-nil (and vice versa).
func (ip *LockIP) flow(fn *ssa.Function, entry LockState, must bool, cut EdgeSet) *LockFacts {
	if entry == nil {
		entry = LockState{}
	}
	n := len(fn.Blocks)
	eff := map[ssa.Instruction]callEffect{}
	drops := map[Edge][]string{}
	for _, b := range fn.Blocks {
		for _, i := range b.Instrs {
			c, ok := i.(ssa.CallInstruction)
			if !ok {
				continue
			}
			switch c.(type) {
			case *ssa.Defer, *ssa.Go:
				continue
			}
			e := ip.effect(c)
			eff[i] = e
			if !must && (len(e.dropOnErr) > 0 || len(e.dropOnOk) > 0) {
				if errs := ErrResult(c); len(errs) > 0 {
					for ed := range NilEdges(fn, errs, false) {
						drops[ed] = append(drops[ed], e.dropOnErr...)
					}
					for ed := range NilEdges(fn, errs, true) {
						drops[ed] = append(drops[ed], e.dropOnOk...)
					}
				}
			}
		}
	}
	transfer := func(b *ssa.BasicBlock, st LockState) LockState {
		st = st.clone()
		for _, i := range b.Instrs {
			if e, ok := eff[i]; ok {
				applyEffect(st, e, must)
			}
		}
		return st
	}
	in := make([]LockState, n)
	out := make([]LockState, n)
	changed := true
	for iter := 0; changed && iter < 4*n+8; iter++ {
		changed = false
		for _, b := range fn.Blocks {
			var st LockState
			if b.Index == 0 {
				st = entry.clone()
			}
			for _, p := range b.Preds {
				if out[p.Index] == nil {
					continue
				}
				for si, s := range p.Succs {
					if s != b || cut[Edge{p, si}] {
						continue
					}
					o := out[p.Index]
					if d := drops[Edge{p, si}]; len(d) > 0 {
						o = o.clone()
						for _, q := range d {
							delete(o, q)
						}
					}
					if st == nil {
						st = o.clone()
					} else {
						st = meetStates(st, o, must)
					}
				}
			}
			if st == nil {
				continue
			}
			o := transfer(b, st)
			if in[b.Index] == nil || !sameState(compact(in[b.Index]), compact(st)) || !sameState(compact(out[b.Index]), compact(o)) {
				in[b.Index], out[b.Index] = st, o
				changed = true
			}
		}
	}
	lf := &LockFacts{Before: map[ssa.Instruction]LockState{}, AtExit: map[*ssa.Return]LockState{}, Fn: fn}
	for _, b := range fn.Blocks {
		st := in[b.Index]
		if st == nil {
			continue // unreachable
		}
		st = st.clone()
		for _, i := range b.Instrs {
			lf.Before[i] = compact(st)
			if e, ok := eff[i]; ok {
				applyEffect(st, e, must)
			}
			if r, ok := i.(*ssa.Return); ok {
				lf.AtExit[r] = compact(st)
			}
		}
	}
	return lf
}

func defersOf(fn *ssa.Function) []*ssa.Defer {
	var ds []*ssa.Defer
	Instrs(fn, func(in ssa.Instruction) {
		if d, ok := in.(*ssa.Defer); ok {
			ds = append(ds, d)
		}
	})
	// execution order at exit: last registered first
	sort.SliceStable(ds, func(i, j int) bool {
		a, b := ds[i], ds[j]
		if a.Block() != b.Block() {
			return a.Block().Index > b.Block().Index
		}
		return idxOf(a) > idxOf(b)
	})
	return ds
}

// errCellOf returns the cell of the named error result of fn, if any.
func errCellOf(fn *ssa.Function) *ssa.Alloc {
	for _, r := range Returns(fn) {
		if len(r.Results) == 0 {
			continue
		}
		if u, ok := r.Results[len(r.Results)-1].(*ssa.UnOp); ok && u.Op == token.MUL && IsErrorType(u.Type()) {
			if a, ok := u.X.(*ssa.Alloc); ok {
				return a
			}
		}
	}
	return nil
}

// errKind classifies the error result of return r.
func errKind(fn *ssa.Function, r *ssa.Return) int {
	if len(r.Results) == 0 {
		return ekNone
	}
	v := r.Results[len(r.Results)-1]
	if !IsErrorType(v.Type()) {
		return ekNone
	}
	if u, ok := v.(*ssa.UnOp); ok && u.Op == token.MUL {
		if cell, ok := u.X.(*ssa.Alloc); ok {
			// named result: the value stored last in the return's block
			var last *ssa.Store
			for _, in := range r.Block().Instrs {
				if in == ssa.Instruction(r) {
					break
				}
				if st, ok := in.(*ssa.Store); ok && st.Addr == cell {
					last = st
				}
			}
			if last == nil {
				return ekUnknown
			}
			v = last.Val
		}
	}
	if IsNilConst(v) {
		return ekNil
	}
	switch x := v.(type) {
	case *ssa.MakeInterface:
		return ekNonNil
	case *ssa.Call:
		ci := Callee(x)
		if (ci.Pkg == "errors" && ci.Name == "New") || (ci.Pkg == "fmt" && ci.Name == "Errorf") {
			return ekNonNil
		}
	case *ssa.UnOp:
		if _, ok := x.X.(*ssa.Global); ok && x.Op == token.MUL {
			return ekNonNil // sentinel error variable
		}
	}
	if len(NilEdges(fn, []ssa.Value{v}, false)) > 0 && GuardedBy(fn, nil, r, NilEdges(fn, []ssa.Value{v}, false)) {
		return ekNonNil
	}
	if len(NilEdges(fn, []ssa.Value{v}, true)) > 0 && GuardedBy(fn, nil, r, NilEdges(fn, []ssa.Value{v}, true)) {
		return ekNil
	}
	return ekUnknown
}

// deferEffect: effect of deferred call d when the function returns with an
// error result of the given kind. A deferred function literal that tests the
// named error result is evaluated with the infeasible edges removed.
func (ip *LockIP) deferEffect(fn *ssa.Function, d *ssa.Defer, kind int) callEffect {
	if kind == ekNil || kind == ekNonNil {
		if mc, ok := d.Call.Value.(*ssa.MakeClosure); ok {
			if lit, ok := mc.Fn.(*ssa.Function); ok && ip.inScope[lit] && isFuncLit(lit) {
				if cell := errCellOf(fn); cell != nil {
					var loads []ssa.Value
					Instrs(lit, func(in ssa.Instruction) {
						if u, ok := in.(*ssa.UnOp); ok && u.Op == token.MUL && CellOf(u.X) == cell {
							loads = append(loads, u)
						}
					})
					if len(loads) > 0 {
						cut := NilEdges(lit, loads, kind == ekNonNil)
						s := ip.computeSum(lit, cut)
						return ip.effectOf(d, []LockTarget{{lit, "closure"}}, []*lockSum{s})
					}
				}
			}
		}
	}
	return ip.effect(d)
}

// exitStates returns, per return, the lock state after the deferred calls
// have run; before[d] is the state in which deferred call d starts (joined
// over returns with the analysis' meet).
//
// May mode is optimistic about deferred releases: a release deferred on some
// path to the return is taken to pair with the acquisition made on that path
// (`if w { Lock; defer Unlock } else { RLock; defer RUnlock }`).
func (ip *LockIP) exitStates(fn *ssa.Function, lf *LockFacts, must bool) (map[*ssa.Return]LockState, map[*ssa.Defer]LockState) {
	out := map[*ssa.Return]LockState{}
	before := map[*ssa.Defer]LockState{}
	ds := defersOf(fn)
	for r, st0 := range lf.AtExit {
		st := st0.clone()
		kind := errKind(fn, r)
		for _, d := range ds {
			dom := Dominates(d, r)
			if !dom && !Reaches(fn, d, r, nil, nil) {
				continue
			}
			if b, ok := before[d]; !ok {
				before[d] = st.clone()
			} else {
				before[d] = meetStates(b, st, must)
			}
			e := ip.deferEffect(fn, d, kind)
			for p := range e.relMay {
				delete(st, p)
			}
			if must {
				if dom {
					for p, m := range e.acqMust {
						if st[p] < m {
							st[p] = m
						}
					}
				}
			} else {
				for p, m := range e.acqMay {
					if st[p] < m {
						st[p] = m
					}
				}
			}
		}
		out[r] = compact(st)
	}
	return out, before
}

func meetStates(a, b LockState, must bool) LockState {
	r := LockState{}
	for k, x := range a {
		y := b[k]
		if must {
			if y < x {
				x = y
			}
		} else if y > x {
			x = y
		}
		if x != LNone {
			r[k] = x
		}
	}
	if !must {
		for k, y := range b {
			if _, ok := a[k]; !ok && y != LNone {
				r[k] = y
			}
		}
	}
	return r
}

func translatable(path string) bool {
	return strings.HasPrefix(path, "g:") || strings.HasPrefix(path, "p:")
}

// joinExit joins the post-defer exit states of the returns whose error kind
// is accepted by want.
func (ip *LockIP) joinExit(fn *ssa.Function, lf *LockFacts, must bool, want func(kind int) bool) LockState {
	ex, _ := ip.exitStates(fn, lf, must)
	var res LockState
	for r, st := range ex {
		if !want(errKind(fn, r)) {
			continue
		}
		if res == nil {
			res = st.clone()
		} else {
			res = meetStates(res, st, must)
		}
	}
	if res == nil {
		res = LockState{}
	}
	return res
}

func anyKind(int) bool    { return true }
func okKind(k int) bool   { return k != ekNonNil }
func errKindP(k int) bool { return k != ekNil }

// foreignReleases lists lock paths released in fn (directly, by callees or by
// deferred calls) at a point where fn itself does not hold them.
func (ip *LockIP) foreignReleases(fn *ssa.Function, cut EdgeSet) map[string]bool {
	out := map[string]bool{}
	lf := ip.flow(fn, nil, false, cut)
	atExit := LockState{}
	for _, s := range lf.AtExit {
		atExit = meetStates(atExit, s, false)
	}
	Instrs(fn, func(in ssa.Instruction) {
		c, ok := in.(ssa.CallInstruction)
		if !ok {
			return
		}
		if _, isGo := c.(*ssa.Go); isGo {
			return
		}
		st, reach := lf.Before[in]
		if !reach {
			return
		}
		e := ip.effect(c)
		if len(e.relMay) == 0 {
			return
		}
		if _, isDefer := c.(*ssa.Defer); isDefer {
			// a deferred release pairs with an acquisition made anywhere before exit
			st = atExit
		}
		for p := range e.relMay {
			if st[p] == LNone && translatable(p) {
				out[p] = true
			}
		}
	})
	return out
}

func sameState(a, b LockState) bool {
	if len(a) != len(b) {
		return false
	}
	for k, v := range a {
		if b[k] != v {
			return false
		}
	}
	return true
}

func sameSet(a, b map[string]bool) bool {
	if len(a) != len(b) {
		return false
	}
	for k := range a {
		if !b[k] {
			return false
		}
	}
	return true
}

// computeSum computes the exit summary of fn with the given edges removed.
func (ip *LockIP) computeSum(fn *ssa.Function, cut EdgeSet) *lockSum {
	keep := func(st LockState) LockState {
		r := LockState{}
		for p, m := range st {
			if m != LNone && translatable(p) {
				r[p] = m
			}
		}
		return r
	}
	s := &lockSum{mayRel: map[string]bool{}, mustRel: map[string]bool{}}
	mayF := ip.flow(fn, nil, false, cut)
	mustF := ip.flow(fn, nil, true, cut)
	s.ok = exitSum{keep(ip.joinExit(fn, mayF, false, okKind)), keep(ip.joinExit(fn, mustF, true, okKind))}
	s.err = exitSum{keep(ip.joinExit(fn, mayF, false, errKindP)), keep(ip.joinExit(fn, mustF, true, errKindP))}
	cand := ip.foreignReleases(fn, cut)
	if len(cand) > 0 {
		held := LockState{}
		for p := range cand {
			held[p] = LWrite
		}
		a := ip.joinExit(fn, ip.flow(fn, held, true, cut), true, anyKind)
		// must-release: no return keeps the lock. The optimistic treatment
		// of may-releases is not wanted here, so use the must flow's
		// complement only when every path releases: approximate by "released
		// in the must flow and no path of the may flow re-acquires it"
		b := ip.joinExit(fn, ip.flow(fn, held, false, cut), false, anyKind)
		for p := range cand {
			if a[p] == LNone {
				s.mayRel[p] = true
			}
			if b[p] == LNone {
				s.mustRel[p] = true
			}
		}
	}
	return s
}

func sameSum(a, b *lockSum) bool {
	return sameState(a.ok.may, b.ok.may) && sameState(a.ok.must, b.ok.must) && sameState(a.err.may, b.err.may) && sameState(a.err.must, b.err.must) &&
		sameSet(a.mayRel, b.mayRel) && sameSet(a.mustRel, b.mustRel)
}

func (ip *LockIP) summarise() {
	for iter := 0; iter < 12; iter++ {
		changed := false
		for _, fn := range ip.Funcs {
			s := ip.sum[fn]
			ns := ip.computeSum(fn, nil)
			if !sameSum(s, ns) {
				s.ok, s.err, s.mayRel, s.mustRel = ns.ok, ns.err, ns.mayRel, ns.mustRel
				changed = true
			}
		}
		if !changed {
			break
		}
	}
}

// ExitHeld reports the locks (callee terms) a function may / must still hold
// when it returns, and the caller-held locks it may release.
func (ip *LockIP) ExitHeld(fn *ssa.Function) (may, must LockState, mayRelease map[string]bool) {
	s := ip.sum[fn]
	if s == nil {
		return LockState{}, LockState{}, map[string]bool{}
	}
	return meetStates(s.ok.may, s.err.may, false), meetStates(s.ok.must, s.err.must, true), s.mayRel
}

// ExitHeldOnSuccess: locks held when fn returns a nil error (all returns for
// functions without error result).
func (ip *LockIP) ExitHeldOnSuccess(fn *ssa.Function) (may, must LockState) {
	s := ip.sum[fn]
	if s == nil {
		return LockState{}, LockState{}
	}
	return s.ok.may, s.ok.must
}

// ---- transitive acquisitions ----

func (ip *LockIP) acquisitions() {
	for iter := 0; iter < 20; iter++ {
		changed := false
		for _, fn := range ip.Funcs {
			s := ip.sum[fn]
			add := func(a LockAcq) {
				if old, ok := s.acq[a.key()]; !ok {
					s.acq[a.key()] = a
					changed = true
				} else if len(a.Via) < len(old.Via) {
					s.acq[a.key()] = a // keep the shortest witness chain
				}
			}
			Instrs(fn, func(in ssa.Instruction) {
				c, ok := in.(ssa.CallInstruction)
				if !ok {
					return
				}
				if _, isGo := c.(*ssa.Go); isGo {
					return
				}
				for _, a := range ip.acqAt(fn, c) {
					add(a)
				}
			})
		}
		if !changed {
			break
		}
	}
}

// acqAt: acquisitions performed by call c of fn, in fn's terms.
func (ip *LockIP) acqAt(fn *ssa.Function, c ssa.CallInstruction) []LockAcq {
	if op, cl, ok := ip.prim(c); ok {
		if !op.Acquire || ip.isReacquire(fn, c, op.Path) {
			return nil
		}
		return []LockAcq{{Path: op.Path, Class: cl, Mode: op.Mode, Site: c, Via: []string{FuncName(fn)}}}
	}
	var out []LockAcq
	seen := map[string]int{}
	for _, t := range ip.Targets(c) {
		s := ip.sum[t.Fn]
		if s == nil {
			continue
		}
		keys := make([]string, 0, len(s.acq))
		for k := range s.acq {
			keys = append(keys, k)
		}
		sort.Strings(keys)
		for _, k := range keys {
			a := s.acq[k]
			b := LockAcq{Path: ip.toCaller(c, t, a.Path), Class: a.Class, Mode: a.Mode, Site: a.Site}
			if len(a.Via) < 12 {
				b.Via = append([]string{FuncName(fn)}, a.Via...)
			} else {
				b.Via = a.Via
			}
			if i, ok := seen[b.key()]; ok {
				if len(b.Via) < len(out[i].Via) {
					out[i] = b
				}
				continue
			}
			seen[b.key()] = len(out)
			out = append(out, b)
		}
	}
	return out
}

// isReacquire: the acquisition closes an unlock/relock window: fn released
// the (caller-held) lock itself on every path to c, so taking it again is not
// a re-entrant acquisition even when the caller holds it around the call.
func (ip *LockIP) isReacquire(fn *ssa.Function, c ssa.CallInstruction, path string) bool {
	k := reacqKey{fn, path}
	lf, ok := ip.reacq[k]
	if !ok {
		if !ip.foreignReleases(fn, nil)[path] {
			ip.reacq[k] = nil
			return false
		}
		lf = ip.flow(fn, LockState{path: LWrite}, false, nil)
		ip.reacq[k] = lf
	}
	if lf == nil {
		return false
	}
	st, reach := lf.Before[c]
	return reach && st[path] == LNone
}

type reacqKey struct {
	fn   *ssa.Function
	path string
}

// AcqAt returns the locks that call c may acquire while it runs (directly or
// through in-scope callees), in the terms of the function containing c.
func (ip *LockIP) AcqAt(c ssa.CallInstruction) []LockAcq { return ip.acqAt(c.Parent(), c) }

// Acq returns the transitive acquisitions of fn in fn's own terms.
func (ip *LockIP) Acq(fn *ssa.Function) []LockAcq {
	s := ip.sum[fn]
	if s == nil {
		return nil
	}
	keys := make([]string, 0, len(s.acq))
	for k := range s.acq {
		keys = append(keys, k)
	}
	sort.Strings(keys)
	out := make([]LockAcq, 0, len(keys))
	for _, k := range keys {
		out = append(out, s.acq[k])
	}
	return out
}

// ---- may-held states ----

// useSites lists the instructions of the parent that invoke function literal
// f synchronously (direct call, callback argument, defer); async reports a
// use as a goroutine or as a stored / returned value.
func (ip *LockIP) useSites(f *ssa.Function) (sites []ssa.CallInstruction, escapes bool) {
	par := f.Parent()
	if par == nil {
		return nil, true
	}
	Instrs(par, func(in ssa.Instruction) {
		mc, ok := in.(*ssa.MakeClosure)
		if !ok || mc.Fn != f {
			return
		}
		for _, u := range Uses(mc) {
			switch u := u.(type) {
			case ssa.CallInstruction:
				if _, isGo := u.(*ssa.Go); isGo {
					escapes = true
					continue
				}
				hit := false
				for _, t := range ip.Targets(u) {
					if t.Fn == f {
						hit = true
					}
				}
				if hit {
					sites = append(sites, u)
				} else {
					escapes = true
				}
			case *ssa.Store, *ssa.Return, *ssa.MakeInterface, *ssa.Send, *ssa.MapUpdate:
				if st, ok := u.(*ssa.Store); ok {
					if _, isAlloc := st.Addr.(*ssa.Alloc); isAlloc {
						continue // local variable: followed by Uses
					}
				}
				escapes = true
			}
		}
	})
	return
}

func (ip *LockIP) stateAtUse(par *ssa.Function, u ssa.CallInstruction, must bool) LockState {
	lf := ip.facts(par, must)
	if d, ok := u.(*ssa.Defer); ok {
		_, before := ip.exitStates(par, lf, must)
		if st, ok := before[d]; ok {
			return st
		}
		return LockState{}
	}
	if st, ok := lf.Before[u]; ok {
		return st
	}
	return LockState{}
}

func (ip *LockIP) facts(fn *ssa.Function, must bool) *LockFacts {
	m := ip.may
	if must {
		m = ip.must
	}
	if lf, ok := m[fn]; ok {
		return lf
	}
	// break recursion defensively
	m[fn] = &LockFacts{Before: map[ssa.Instruction]LockState{}, AtExit: map[*ssa.Return]LockState{}, Fn: fn}
	entry := LockState{}
	if isFuncLit(fn) && ip.inScope[fn.Parent()] {
		sites, esc := ip.useSites(fn)
		var st LockState
		for _, u := range sites {
			s := ip.stateAtUse(fn.Parent(), u, must)
			if st == nil {
				st = s.clone()
			} else {
				st = meetStates(st, s, must)
			}
		}
		if st != nil && !(must && esc) {
			entry = st
		}
	} else if must {
		if e := ip.entry[fn]; e != nil {
			entry = e
		}
	}
	lf := ip.flow(fn, entry, must, nil)
	m[fn] = lf
	return lf
}

func (ip *LockIP) mayStates() {
	for _, fn := range ip.Funcs {
		ip.facts(fn, false)
	}
}

// MayBefore: locks possibly held just before instruction in. For a Defer
// instruction the state in which the deferred call starts at function exit.
func (ip *LockIP) MayBefore(in ssa.Instruction) LockState { return ip.before(in, false) }

// MustBefore: locks certainly held just before in, including locks every
// in-scope caller holds around the call of the function.
func (ip *LockIP) MustBefore(in ssa.Instruction) LockState { return ip.before(in, true) }

func (ip *LockIP) before(in ssa.Instruction, must bool) LockState {
	fn := in.Parent()
	if !ip.inScope[fn] {
		return LockState{}
	}
	lf := ip.facts(fn, must)
	if d, ok := in.(*ssa.Defer); ok {
		_, before := ip.exitStates(fn, lf, must)
		if st, ok := before[d]; ok {
			return compact(st)
		}
		return LockState{}
	}
	if st, ok := lf.Before[in]; ok {
		return compact(st)
	}
	return LockState{}
}

// compact drops released (LNone) entries.
func compact(st LockState) LockState {
	r := LockState{}
	for k, v := range st {
		if v != LNone {
			r[k] = v
		}
	}
	return r
}

// ---- must-held states with caller-holds entry ----

func exportedEntry(fn *ssa.Function) bool {
	if fn.Parent() != nil {
		return false
	}
	o, ok := fn.Object().(*types.Func)
	if !ok || o == nil {
		return true
	}
	if !o.Exported() {
		return fn.Name() == "init" || fn.Name() == "main"
	}
	return true
}

func (ip *LockIP) mustStates() {
	// roots: exported, or used as a value (method values, function values), or
	// started as goroutines
	for _, fn := range ip.Funcs {
		if isFuncLit(fn) {
			continue
		}
		if exportedEntry(fn) {
			ip.root[fn] = true
		}
	}
	for _, fn := range ip.Funcs {
		Instrs(fn, func(in ssa.Instruction) {
			// operands that are functions but not in call position
			var ops []*ssa.Value
			for _, op := range in.Operands(ops) {
				if op == nil || *op == nil {
					continue
				}
				var f *ssa.Function
				switch v := (*op).(type) {
				case *ssa.Function:
					f = v
				case *ssa.MakeClosure:
					// bound method value x.m
					if g, ok := v.Fn.(*ssa.Function); ok && g.Synthetic != "" {
						if o, ok := g.Object().(*types.Func); ok && o != nil {
							f = ip.P.FuncOf(o)
						} else {
							f = ip.boundTarget(g)
						}
					}
				}
				if f == nil || !ip.inScope[f] || isFuncLit(f) {
					continue
				}
				if c, ok := in.(ssa.CallInstruction); ok && c.Common().Value == *op {
					if _, isGo := c.(*ssa.Go); !isGo {
						continue // ordinary call
					}
				}
				ip.root[f] = true
			}
		})
	}
	for _, fn := range ip.Funcs {
		if ip.root[fn] {
			ip.entry[fn] = LockState{}
		}
	}
	// fixpoint over call sites
	for iter := 0; iter < 30; iter++ {
		changed := false
		ip.must = map[*ssa.Function]*LockFacts{}
		next := map[*ssa.Function]LockState{}
		contribute := func(f *ssa.Function, st LockState) {
			if ip.root[f] || isFuncLit(f) {
				return
			}
			if cur, ok := next[f]; !ok {
				next[f] = st.clone()
			} else {
				next[f] = meetStates(cur, st, true)
			}
		}
		for _, fn := range ip.Funcs {
			if !isFuncLit(fn) && ip.entry[fn] == nil {
				continue // not known to be called yet
			}
			if isFuncLit(fn) {
				// analysed when its parent is known
				top := fn
				for top.Parent() != nil {
					top = top.Parent()
				}
				if ip.entry[top] == nil {
					continue
				}
			}
			Instrs(fn, func(in ssa.Instruction) {
				c, ok := in.(ssa.CallInstruction)
				if !ok {
					return
				}
				ts := ip.Targets(c)
				if len(ts) == 0 {
					return
				}
				var st LockState
				if _, isGo := c.(*ssa.Go); isGo {
					st = LockState{}
				} else {
					st = ip.before(in, true)
				}
				for _, t := range ts {
					if t.Kind == "closure" || t.Kind == "callback" {
						continue
					}
					cs := LockState{}
					for p, m := range st {
						if q := ip.toCallee(c, t, p); q != "" {
							cs[q] = m
						}
					}
					contribute(t.Fn, cs)
				}
			})
		}
		for f, st := range next {
			if cur := ip.entry[f]; cur == nil || !sameState(cur, st) {
				ip.entry[f] = st
				changed = true
			}
		}
		if !changed {
			break
		}
	}
	ip.must = map[*ssa.Function]*LockFacts{}
	for _, fn := range ip.Funcs {
		ip.facts(fn, true)
	}
}

// boundTarget resolves a "bound method wrapper" to the wrapped method.
func (ip *LockIP) boundTarget(g *ssa.Function) *ssa.Function {
	var res *ssa.Function
	Instrs(g, func(in ssa.Instruction) {
		if c, ok := in.(ssa.CallInstruction); ok && res == nil {
			if f, ok := c.Common().Value.(*ssa.Function); ok {
				res = f
			}
		}
	})
	return res
}

// Entry returns the locks (callee terms) held by every in-scope caller of fn;
// called=false when fn is neither reachable from outside nor called in scope.
func (ip *LockIP) Entry(fn *ssa.Function) (st LockState, called bool) {
	if isFuncLit(fn) {
		top := fn
		for top.Parent() != nil {
			top = top.Parent()
		}
		_, ok := ip.Entry(top)
		return LockState{}, ok
	}
	e := ip.entry[fn]
	if e == nil {
		return LockState{}, false
	}
	return e, true
}

// IsRoot: fn can be entered from outside the scope (exported, stored as a
// value or started as a goroutine), i.e. with no lock held.
func (ip *LockIP) IsRoot(fn *ssa.Function) bool { return ip.root[fn] }

// ---- class-level lock order ----

// OrderEdge: while a lock of class From is held a lock of class To is acquired.
type OrderEdge struct {
	From, To   string
	FromPath   string
	Fn         *ssa.Function
	Site       ssa.Instruction
	Acq        LockAcq
	SamePath   bool
	HeldMode   int
	DeferredAt bool
}

// OrderEdges enumerates, for every call-like instruction of the scope, the
// pairs (held lock, acquired lock).
func (ip *LockIP) OrderEdges() []OrderEdge {
	var out []OrderEdge
	for _, fn := range ip.Funcs {
		Instrs(fn, func(in ssa.Instruction) {
			c, ok := in.(ssa.CallInstruction)
			if !ok {
				return
			}
			if _, isGo := c.(*ssa.Go); isGo {
				return
			}
			held := ip.MayBefore(in)
			if len(held) == 0 {
				return
			}
			acqs := ip.acqAt(fn, c)
			if len(acqs) == 0 {
				return
			}
			hk := make([]string, 0, len(held))
			for p, m := range held {
				if m != LNone {
					hk = append(hk, p)
				}
			}
			sort.Strings(hk)
			_, isDefer := c.(*ssa.Defer)
			for _, a := range acqs {
				for _, hp := range hk {
					out = append(out, OrderEdge{From: ip.ClassOf(hp), To: a.Class, FromPath: hp, Fn: fn, Site: in, Acq: a,
						SamePath: a.Path != "" && a.Path == hp, HeldMode: held[hp], DeferredAt: isDefer})
				}
			}
		})
	}
	return out
}

// Reachable reports whether fn can (transitively, through in-scope calls made
// on the calling goroutine) execute an instruction satisfying pred; the
// result is memoised per predicate instance by the caller.
func (ip *LockIP) Reachable(pred func(ssa.Instruction) bool) map[*ssa.Function]bool {
	res := map[*ssa.Function]bool{}
	for _, fn := range ip.Funcs {
		hit := false
		Instrs(fn, func(in ssa.Instruction) {
			if !hit && pred(in) {
				hit = true
			}
		})
		if hit {
			res[fn] = true
		}
	}
	for changed := true; changed; {
		changed = false
		for _, fn := range ip.Funcs {
			if res[fn] {
				continue
			}
			Instrs(fn, func(in ssa.Instruction) {
				if res[fn] {
					return
				}
				c, ok := in.(ssa.CallInstruction)
				if !ok {
					return
				}
				if _, isGo := c.(*ssa.Go); isGo {
					return
				}
				for _, t := range ip.Targets(c) {
					if res[t.Fn] {
						res[fn] = true
						changed = true
						return
					}
				}
			})
		}
	}
	return res
}

// Error-result kinds of a return instruction (ReturnErrKind).
const (
	ErrKindNone    = ekNone    // no error result
	ErrKindUnknown = ekUnknown // may be nil or non-nil
	ErrKindNil     = ekNil
	ErrKindNonNil  = ekNonNil
)

// ReturnErrKind classifies the (last, error-typed) result of return r: nil
// constant, certainly non-nil (fresh error, sentinel variable, or a value
// tested non-nil on every path to r), or unknown.
func ReturnErrKind(fn *ssa.Function, r *ssa.Return) int { return errKind(fn, r) }

// Releases returns the lock paths (caller terms) that call c may release:
// a primitive Unlock/RUnlock, or caller-held locks released by an in-scope callee.
func (ip *LockIP) Releases(c ssa.CallInstruction) []string {
	e := ip.effect(c)
	out := make([]string, 0, len(e.relMay))
	for p := range e.relMay {
		out = append(out, p)
	}
	sort.Strings(out)
	return out
}

// SameSection reports whether lock `path` is certainly held in write mode at
// both instructions a and b (same function, a before b) and is not released on
// any path between them: a and b lie in one critical section.
func (ip *LockIP) SameSection(a, b ssa.Instruction, path string) bool {
	fn := a.Parent()
	if fn != b.Parent() {
		return false
	}
	if ip.MustBefore(a)[path] != LWrite || ip.MustBefore(b)[path] != LWrite {
		return false
	}
	ok := true
	Instrs(fn, func(in ssa.Instruction) {
		c, isCall := in.(ssa.CallInstruction)
		if !isCall || !ok {
			return
		}
		switch c.(type) {
		case *ssa.Defer, *ssa.Go:
			return
		}
		rel := false
		for _, p := range ip.Releases(c) {
			if p == path {
				rel = true
			}
		}
		if rel && Reaches(fn, a, in, nil, nil) && Reaches(fn, in, b, nil, nil) {
			ok = false
		}
	})
	return ok
}

// boundSyncEffect: c calls a func value all of whose possible values are bound
// sync.Mutex/RWMutex methods (`release := mu.Unlock; ...; release()`). With a
// single possible value the operation is definite, with several (one per
// branch) every release is a may-release and every acquisition a
// may-acquisition.
func (ip *LockIP) boundSyncEffect(c ssa.CallInstruction) (callEffect, bool) {
	cc := c.Common()
	if cc.IsInvoke() {
		return callEffect{}, false
	}
	if _, ok := cc.Value.(*ssa.Function); ok {
		return callEffect{}, false
	}
	roots := Roots(cc.Value, nil)
	if len(roots) == 0 {
		return callEffect{}, false
	}
	var ops []LockOp
	for _, r := range roots {
		mc, ok := r.(*ssa.MakeClosure)
		if !ok || len(mc.Bindings) != 1 {
			return callEffect{}, false
		}
		g, ok := mc.Fn.(*ssa.Function)
		if !ok || g.Synthetic == "" {
			return callEffect{}, false
		}
		var op *LockOp
		for _, inner := range AllCalls(g) {
			ci := Callee(inner)
			if ci.Pkg != "sync" || (ci.Recv != "Mutex" && ci.Recv != "RWMutex") {
				continue
			}
			p := XPath(mc.Bindings[0])
			switch ci.Name {
			case "Lock":
				op = &LockOp{p, LWrite, true}
			case "Unlock":
				op = &LockOp{p, LWrite, false}
			case "RLock":
				op = &LockOp{p, LRead, true}
			case "RUnlock":
				op = &LockOp{p, LRead, false}
			}
			if op != nil {
				if _, ok := ip.classOf[p]; !ok {
					ip.classOf[p] = lockClass(mc.Bindings[0])
				}
			}
		}
		if op == nil {
			return callEffect{}, false
		}
		ops = append(ops, *op)
	}
	e := newEffect()
	for _, op := range ops {
		if op.Acquire {
			if e.acqMay[op.Path] < op.Mode {
				e.acqMay[op.Path] = op.Mode
			}
			if len(ops) == 1 {
				e.acqMust[op.Path] = op.Mode
			}
		} else {
			e.relMay[op.Path] = true
			if len(ops) == 1 {
				e.relMust[op.Path] = true
			}
		}
	}
	return e, true
}
