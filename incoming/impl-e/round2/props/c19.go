package props

import (
	"fmt"
	"go/token"
	"go/types"
	"sort"
	"strings"

	"golang.org/x/tools/go/ssa"

	"verif/checker/an"
)

func init() {
	register("C19", Prop{
		Pkgs: []string{"./mfs"},
		Explain: "Decided (structural necessary conditions of 'MFS behaves as a hierarchical filesystem and persists what it shows'): " +
			"O1 a move (function that adds an entry to one Directory and then unlinks an entry from another) skips the unlink only where source and destination are the same Directory object (pointer identity) and the same entry name; nowhere are the names of two different inodes compared to decide anything; " +
			"O2 Directory.Unlink drops the cache entry, marks a cached File/Directory child unlinked and removes the link from the UnixFS directory, returning that result; Directory.AddChild and mkdirWithOpts add to the UnixFS directory only where a lookup of the same name failed, and mkdirWithOpts caches the directory object whose node it linked; flushUp propagates to the parent only while the file is not unlinked; " +
			"O3 upward propagation: every parent.updateChildEntry(child{Name,Node}) passes the inode's own name to the inode's own parent, with a node that was added to the DAG service in the same function (or returned by a helper that adds it), and the propagating functions (Directory.updateChildEntry, Directory.Flush, File/Directory.setNodeData) reach it on every non-error path; flushUp reaches it on every path with fullSync set and the file not unlinked; Root.updateChildEntry hands the child's CID to the republisher on every success path; " +
			"O4 settings that are not stored in the DAG node (MaxLinks, MaxHAMTFanout, HAMTShardingSize, SizeEstimationMode) are carried over, each from its own getter, at every site that replaces or creates a directory object from a node (cacheNode, Directory.setNodeData), are filled from the parent in options.fillFrom, and applied by newEmptyDirectory and NewRoot. " +
			"O5 descriptor state machine: every descriptor method that modifies its DagModifier (Write*, Truncate*, ...) marks the descriptor dirty first; flushUp skips its work only in state flushed, installs the DagModifier's node (added to the DAG service) in File.node before it marks the descriptor flushed, and marks it only after every fallible step succeeded; Flush propagates with fullSync; Close/Flush reach flushUp; closing marks the descriptor closed; " +
			"O6 child cache: cacheNode caches exactly the object it returns under the looked-up name; the directory node is produced only after the cached children were synced into the UnixFS directory; Directory.AddChild stores the node in the DAG service before linking it; " +
			"NOT decided: equivalence with a tree model over operation sequences, 'failed operations leave the tree unchanged', contents of the flushed DAG (runtime values).",
		Assume:    []string{"uio.Directory implementations behave as name->node maps (C15)", "unexported fields of mfs are only reachable from package mfs"},
		Technique: "R-CMP on the edge that bypasses the unlink (pointer identity + name equality), R-API (no name comparison between inodes), R-PAIR/R-DOM on Unlink and add guards, R-FLOW on child{Name,Node} and receiver, R-POST on propagation, R-SIB/R-TABLE on directory settings",
		Run:       runC19,
	})
}

const c19uio = "ipld/unixfs/io"

func runC19(c *an.Ctx) {
	const pk = "mfs"
	p := c.P
	fns := p.PkgFuncs(pk)
	if !c.Need(len(fns) > 50, "functions of package mfs") {
		return
	}
	c19Move(c, pk, fns)
	c19Unlink(c, pk, fns)
	c19Propagation(c, pk, fns)
	c19Settings(c, pk, fns)
	// O5: descriptor state machine (what a descriptor changed reaches the file,
	// its directory and the root): shared with C20
	c20Flush(c, pk)
	c19Cache(c, pk, fns)
}

// ---------------------------------------------------------------- O1

func c19Move(c *an.Ctx, pk string, fns []*ssa.Function) {
	p := c.P
	fName := p.Field(pk, "inode", "name")
	if !c.Need(fName != nil, "mfs.inode.name") {
		return
	}
	isDirPtr := func(t types.Type) bool {
		_, ok := t.(*types.Pointer)
		return ok && an.TypeIs(t, pk, "Directory")
	}
	nMoves := 0
	for _, fn := range fns {
		adds := an.Calls(fn, an.M(pk, "Directory", "AddChild"))
		unlinks := an.Calls(fn, an.M(pk, "Directory", "Unlink"))
		for _, a := range adds {
			if _, isCall := a.(*ssa.Call); !isCall {
				continue
			}
			for _, u := range unlinks {
				if !an.Reaches(fn, a, u, nil, nil) {
					continue
				}
				nMoves++
				name := an.FuncName(fn)
				srcDir, dstDir := an.Recv(u), an.Recv(a)
				srcName, dstName := an.Args(u)[0], an.Args(a)[0]
				same := func(x, y, a, b ssa.Value) bool {
					return (an.SameObj(x, a) && an.SameObj(y, b)) || (an.SameObj(x, b) && an.SameObj(y, a))
				}
				ptrEq := an.XCondEdges(fn, func(atom ssa.Value) (bool, bool) {
					b, ok := atom.(*ssa.BinOp)
					if !ok || (b.Op != token.EQL && b.Op != token.NEQ) || !isDirPtr(b.X.Type()) || !isDirPtr(b.Y.Type()) {
						return false, false
					}
					if !same(b.X, b.Y, srcDir, dstDir) {
						return false, false
					}
					return b.Op == token.EQL, b.Op == token.NEQ
				})
				nameEq := an.XCondEdges(fn, func(atom ssa.Value) (bool, bool) {
					b, ok := atom.(*ssa.BinOp)
					if !ok || (b.Op != token.EQL && b.Op != token.NEQ) {
						return false, false
					}
					if !same(b.X, b.Y, srcName, dstName) {
						return false, false
					}
					return b.Op == token.EQL, b.Op == token.NEQ
				})
				addFailed := an.NilEdges(fn, an.ErrResult(a), false)
				nSkip := 0
				for _, r := range an.Returns(fn) {
					if !an.XReaches(fn, a, r, addFailed, map[ssa.Instruction]bool{u: true}) {
						continue
					}
					nSkip++
					okPtr := an.XGuardedBy(fn, a, r, ptrEq)
					okName := an.XGuardedBy(fn, a, r, nameEq)
					var why []string
					if !okPtr {
						why = append(why, "it is not conditioned on source and destination being the same *Directory (pointer comparison of the receivers of Unlink and AddChild)")
					}
					if !okName {
						why = append(why, "it is not conditioned on the source and destination entry names being equal")
					}
					c.Check(okPtr && okName, "O1", "R-CMP", name, "unlink-skipped-only-for-same-entry", r.Pos(),
						"after a successful AddChild the source Unlink is skipped only where the source and destination are the same directory object and name",
						"after a successful AddChild the function can return without unlinking the source: "+strings.Join(why, "; ")+" — moving between different directories (e.g. with equal names, /a/x/f -> /b/x/f) leaves the entry at the source")
				}
				if nSkip == 0 {
					c.OK("O1", "R-CMP", name, "unlink-always-follows-add", u.Pos(), "every success path after AddChild unlinks the source")
				}
			}
		}
	}
	c.Min("O1 move patterns (AddChild followed by Unlink)", nMoves, 1)

	// no comparison of the names of two different inodes anywhere
	nCmp, nBad := 0, 0
	for _, fn := range fns {
		an.Instrs(fn, func(in ssa.Instruction) {
			b, ok := in.(*ssa.BinOp)
			if !ok || (b.Op != token.EQL && b.Op != token.NEQ) {
				return
			}
			base := func(v ssa.Value) (ssa.Value, bool) {
				u, ok := v.(*ssa.UnOp)
				if !ok || u.Op != token.MUL {
					return nil, false
				}
				f, bs := an.FieldOf(u.X)
				if f != fName {
					return nil, false
				}
				return bs, true
			}
			bx, okx := base(b.X)
			by, oky := base(b.Y)
			if okx || oky {
				nCmp++
			}
			if okx && oky && !an.SameObj(bx, by) {
				nBad++
				c.Bad("O1", "R-API", an.FuncName(fn), "inode-name-vs-inode-name", b.Pos(),
					"the names of two different inodes ("+an.PathOf(bx)+" and "+an.PathOf(by)+") are compared: a name identifies an entry only inside one parent, so equal names do not mean the same directory/file")
			}
		})
	}
	if nBad == 0 {
		c.OK("O1", "R-API", pk, "no-identity-by-name", token.NoPos, fmt.Sprintf("no comparison between the names of two inodes (%d comparisons involve inode.name at all)", nCmp))
	}
}

// ---------------------------------------------------------------- O2

// c19FromCacheLookup: v derives from d.entriesCache[key] (comma-ok or plain).
func c19FromCacheLookup(v ssa.Value, cache *types.Var, key ssa.Value) bool {
	for _, r := range an.Roots(v, nil) {
		var lk *ssa.Lookup
		switch x := r.(type) {
		case *ssa.Lookup:
			lk = x
		case *ssa.Extract:
			lk, _ = x.Tuple.(*ssa.Lookup)
		}
		if lk == nil {
			return false
		}
		u, ok := lk.X.(*ssa.UnOp)
		if !ok {
			return false
		}
		if f, _ := an.FieldOf(u.X); f != cache {
			return false
		}
		if key != nil && !an.SameObj(lk.Index, key) {
			return false
		}
	}
	return true
}

func c19Unlink(c *an.Ctx, pk string, fns []*ssa.Function) {
	p := c.P
	fCache, fUnl, fUfs := p.Field(pk, "Directory", "entriesCache"), p.Field(pk, "inode", "unlinked"), p.Field(pk, "Directory", "unixfsDir")
	if !c.Need(fCache != nil && fUnl != nil && fUfs != nil, "Directory.entriesCache, inode.unlinked, Directory.unixfsDir") {
		return
	}
	onUfs := func(call ssa.CallInstruction) bool {
		u, ok := an.Recv(call).(*ssa.UnOp)
		if !ok {
			return false
		}
		f, _ := an.FieldOf(u.X)
		return f == fUfs
	}
	// (a) removal
	nRm := 0
	for _, fn := range p.Methods(pk, "Directory") {
		for _, rm := range an.Calls(fn, an.M(c19uio, "Directory", "RemoveChild")) {
			if !onUfs(rm) {
				continue
			}
			nRm++
			name := an.FuncName(fn)
			key := an.Args(rm)[1]
			// cache entry dropped
			var dels []ssa.Instruction
			for _, d := range an.Calls(fn, an.M("builtin", "", "delete")) {
				args := d.Common().Args
				if u, ok := args[0].(*ssa.UnOp); ok {
					if f, _ := an.FieldOf(u.X); f == fCache && an.SameObj(args[1], key) {
						dels = append(dels, d)
					}
				}
			}
			c.Check(len(dels) > 0 && an.MustPrecede(fn, rm, dels), "O2", "R-PAIR", name, "RemoveChild<=delete(entriesCache)", rm.Pos(),
				"the cached child is dropped on every path that removes the link",
				"the link is removed from the UnixFS directory without deleting the same name from entriesCache: the next GetNode/Flush re-adds the cached child and the entry reappears")
			// result reported
			reported := false
			if v := an.CallValue(rm); v != nil {
				for _, u := range an.Uses(v) {
					if _, ok := u.(*ssa.Return); ok {
						reported = true
					}
				}
			}
			c.Check(reported, "O2", "R-FLOW", name, "RemoveChild-result-returned", rm.Pos(), "the result of RemoveChild is what the caller sees",
				"the error of RemoveChild is dropped: removing a missing entry is reported as success")
			// unlinked marks
			for _, T := range []string{"File", "Directory"} {
				var marks []ssa.Instruction
				var asserts []*ssa.TypeAssert
				an.Instrs(fn, func(in ssa.Instruction) {
					if ta, ok := in.(*ssa.TypeAssert); ok && an.TypeIs(ta.AssertedType, pk, T) && c19FromCacheLookup(ta.X, fCache, key) {
						asserts = append(asserts, ta)
					}
				})
				for _, st := range an.Calls(fn, an.M("sync/atomic", "Bool", "Store")) {
					fa, ok := an.Recv(st).(*ssa.FieldAddr)
					if !ok {
						continue
					}
					if f, _ := an.FieldOf(fa); f != fUnl {
						continue
					}
					k, isK := an.ConstOf(an.Args(st)[0])
					if !isK || k.String() != "true" {
						continue
					}
					// base: x.inode.unlinked with x the asserted value
					ib, ok := fa.X.(*ssa.FieldAddr)
					if !ok {
						continue
					}
					for _, ta := range asserts {
						if e, ok := ib.X.(*ssa.Extract); ok && e.Tuple == ta && e.Index == 0 {
							marks = append(marks, st)
						} else if ib.X == ssa.Value(ta) {
							marks = append(marks, st)
						}
					}
				}
				ok := len(marks) > 0 && len(asserts) > 0
				if ok {
					// on the edge where the cached child has type T the mark precedes the removal
					for _, ta := range asserts {
						var oks []ssa.Value
						for _, r := range *ta.Referrers() {
							if e, isE := r.(*ssa.Extract); isE && e.Index == 1 {
								oks = append(oks, e)
							}
						}
						notT := an.BoolEdges(fn, oks, false)
						blocked := map[ssa.Instruction]bool{}
						for _, m := range marks {
							blocked[m] = true
						}
						if len(oks) > 0 && an.Reaches(fn, ta, rm, notT, blocked) {
							ok = false
						}
					}
					for _, m := range marks {
						if an.Reaches(fn, rm, m, nil, nil) {
							ok = false
						}
					}
				}
				c.Check(ok, "O2", "R-PAIR", name, "cached-"+T+"-marked-unlinked", rm.Pos(),
					"a cached *"+T+" child is marked unlinked before its link is removed",
					"a cached *"+T+" child is not marked unlinked on every path before RemoveChild: an open descriptor of the removed entry re-adds it to this directory on Close/Flush")
			}
		}
	}
	c.Min("O2 RemoveChild sites", nRm, 1)

	// (b) additions of new entries
	nAdd := 0
	for _, fn := range p.Methods(pk, "Directory") {
		if fn.Name() != "AddChild" && fn.Name() != "mkdirWithOpts" {
			continue
		}
		for _, add := range an.Calls(fn, an.M(c19uio, "Directory", "AddChild")) {
			if !onUfs(add) {
				continue
			}
			nAdd++
			key := an.Args(add)[1]
			var lookups []ssa.Value
			for _, lk := range an.Calls(fn, an.M(pk, "Directory", "childUnsync"), an.M(pk, "Directory", "Child")) {
				if an.SameObj(an.Args(lk)[0], key) && an.SameObj(an.Recv(lk), fn.Params[0]) {
					lookups = append(lookups, an.ErrResult(lk)...)
				}
			}
			ok := len(lookups) > 0 && an.GuardedBy(fn, nil, add, an.NilEdges(fn, lookups, false))
			c.Check(ok, "O2", "R-DOM", an.FuncName(fn), "add<=lookup-failed", add.Pos(),
				"the entry is added only where a lookup of the same name in this directory failed",
				"an entry is added to the UnixFS directory without a failed lookup of the same name first: an existing entry is silently replaced (and a cached child keeps shadowing the new node)")
			if fn.Name() == "mkdirWithOpts" {
				// the cached object is the one whose node was linked
				var upd []*ssa.MapUpdate
				an.Instrs(fn, func(in ssa.Instruction) {
					if mu, ok := in.(*ssa.MapUpdate); ok {
						if u, ok := mu.Map.(*ssa.UnOp); ok {
							if f, _ := an.FieldOf(u.X); f == fCache && an.SameObj(mu.Key, key) {
								upd = append(upd, mu)
							}
						}
					}
				})
				good := len(upd) > 0
				for _, mu := range upd {
					if !an.OnNilEdgeOf(fn, add, mu) {
						good = false
					}
					nodeCall, isCall := an.IsCallTo(an.Args(add)[2], an.M(pk, "Directory", "GetNode"), an.M(pk, "FSNode", "GetNode"))
					if !isCall || !an.SameObj(an.Recv(nodeCall), c19StripIface(mu.Value)) {
						good = false
					}
				}
				c.Check(good, "O2", "R-PAIR", an.FuncName(fn), "cache[name]=object-of-linked-node", add.Pos(),
					"after the link is added the same directory object is cached under the same name",
					"the directory object cached under the name is not the one whose node was linked (or is cached although AddChild failed): lookups and the DAG disagree")
			}
		}
	}
	c.Min("O2 additions of new entries", nAdd, 2)

	// (c) flushUp: propagate only while linked
	for _, fn := range fns {
		for _, up := range an.Calls(fn, an.M(pk, "parent", "updateChildEntry")) {
			loads := an.Calls(fn, an.M("sync/atomic", "Bool", "Load"))
			var vals []ssa.Value
			for _, l := range loads {
				if fa, ok := an.Recv(l).(*ssa.FieldAddr); ok {
					if f, _ := an.FieldOf(fa); f == fUnl {
						if v := an.CallValue(l); v != nil {
							vals = append(vals, v)
						}
					}
				}
			}
			if len(vals) == 0 {
				continue
			}
			c.Check(an.GuardedBy(fn, nil, up, an.BoolEdges(fn, vals, false)), "O2", "R-DOM", an.FuncName(fn), "propagate-only-if-linked", up.Pos(),
				"the parent entry is updated only where unlinked.Load() is false",
				"the parent entry is updated although the file may have been unlinked: a removed or moved-away entry reappears in its old directory")
		}
	}
	if fu := p.Func(pk, "fileDescriptor", "flushUp"); c.Need(fu != nil, "fileDescriptor.flushUp") {
		n := 0
		for _, l := range an.Calls(fu, an.M("sync/atomic", "Bool", "Load")) {
			if fa, ok := an.Recv(l).(*ssa.FieldAddr); ok {
				if f, _ := an.FieldOf(fa); f == fUnl {
					n++
				}
			}
		}
		c.Min("O2 unlinked.Load() test in flushUp", n, 1)
	}
}

func c19StripIface(v ssa.Value) ssa.Value {
	for {
		switch x := v.(type) {
		case *ssa.MakeInterface:
			v = x.X
		case *ssa.ChangeInterface:
			v = x.X
		default:
			return v
		}
	}
}

// ---------------------------------------------------------------- O3

// c19ChildLit returns the values stored into the Name and Node fields of the
// child struct passed as argument v.
func c19ChildLit(v ssa.Value) (name, node ssa.Value) {
	u, ok := v.(*ssa.UnOp)
	if !ok || u.Op != token.MUL {
		return nil, nil
	}
	a, ok := u.X.(*ssa.Alloc)
	if !ok || a.Referrers() == nil {
		return nil, nil
	}
	for _, r := range *a.Referrers() {
		fa, ok := r.(*ssa.FieldAddr)
		if !ok || fa.Referrers() == nil {
			continue
		}
		f, _ := an.FieldOf(fa)
		for _, s := range *fa.Referrers() {
			if st, ok := s.(*ssa.Store); ok && st.Addr == fa {
				switch f.Name() {
				case "Name":
					name = st.Val
				case "Node":
					node = st.Val
				}
			}
		}
	}
	return
}

// c19AddsItsResult: every success return of fn yields (possibly through
// Copy()/type assertion) a node that was passed to DAGService.Add on the
// nil-error edge before the return.
func c19AddsItsResult(fn *ssa.Function) bool {
	if fn == nil || fn.Blocks == nil {
		return false
	}
	adds := an.Calls(fn, c19AddM...)
	if len(adds) == 0 {
		return false
	}
	through := &an.FlowOpts{Through: func(call *ssa.Call) ([]ssa.Value, bool) {
		if ci := an.Callee(call); ci.Name == "Copy" && an.Recv(call) != nil {
			return []ssa.Value{an.Recv(call)}, true
		}
		return nil, false
	}}
	some := false
	for _, r := range an.Returns(fn) {
		if len(r.Results) == 0 || an.ReturnErrKind(fn, r) == an.ErrKindNonNil || !an.Reaches(fn, nil, r, nil, nil) {
			continue
		}
		if an.IsNilConst(r.Results[0]) {
			continue
		}
		ok := false
		for _, root := range an.Roots(r.Results[0], through) {
			root = c19StripIface(root)
			for _, a := range adds {
				arg := c19StripIface(an.Args(a)[1])
				if (an.SameObj(root, arg) || c19SameRoot(root, arg)) && an.OnNilEdgeOf(fn, a, r) {
					ok = true
				}
			}
		}
		if !ok {
			return false
		}
		some = true
	}
	return some
}

// c19SameRoot: both values derive from one producer (x and x.(*T)).
func c19SameRoot(a, b ssa.Value) bool {
	ra, rb := an.Roots(a, nil), an.Roots(b, nil)
	for _, x := range ra {
		for _, y := range rb {
			if c19StripIface(x) == c19StripIface(y) {
				return true
			}
		}
	}
	return false
}

var c19AddM = []an.Matcher{an.M("github.com/ipfs/go-ipld-format", "DAGService", "Add"), an.M("github.com/ipfs/go-ipld-format", "NodeAdder", "Add")}

func c19Propagation(c *an.Ctx, pk string, fns []*ssa.Function) {
	p := c.P
	fParent, fName := p.Field(pk, "inode", "parent"), p.Field(pk, "inode", "name")
	if !c.Need(fParent != nil && fName != nil, "inode.parent, inode.name") {
		return
	}
	fieldBase := func(v ssa.Value, fld *types.Var) (string, bool) {
		for _, r := range an.Roots(v, nil) {
			u, ok := r.(*ssa.UnOp)
			if !ok || u.Op != token.MUL {
				return "", false
			}
			f, b := an.FieldOf(u.X)
			if f != fld {
				return "", false
			}
			return an.XPath(b), true
		}
		return "", false
	}
	nUp := 0
	upCalls := map[*ssa.Function][]ssa.Instruction{}
	for _, fn := range fns {
		for _, up := range an.Calls(fn, an.M(pk, "parent", "updateChildEntry")) {
			nUp++
			upCalls[fn] = append(upCalls[fn], up)
			name := an.FuncName(fn)
			nm, nd := c19ChildLit(an.Args(up)[0])
			if !c.Need(nm != nil && nd != nil, "child{Name,Node} literal at "+p.Pos(up.Pos())) {
				continue
			}
			pb, okP := fieldBase(an.Recv(up), fParent)
			nb, okN := fieldBase(nm, fName)
			c.Check(okP && okN && pb == nb, "O3", "R-FLOW", name, "child.Name=own-name,to-own-parent", up.Pos(),
				"the update is sent to x.parent with Name = x.name of the same inode x ("+pb+")",
				fmt.Sprintf("updateChildEntry is called on the parent of %q with the name of %q (ok=%v/%v): the parent updates the wrong entry, the change never shows up under this inode's name", pb, nb, okP, okN))
			// node added to the DAG service
			nd = c19StripIface(nd)
			added, how := false, ""
			for _, r := range an.Roots(nd, nil) {
				r = c19StripIface(r)
				if call, ok := r.(*ssa.Call); ok {
					if c19AddsItsResult(an.Callee(call).Static) {
						added, how = true, "returned by "+an.Callee(call).String()+" which adds it"
					}
				}
				if e, ok := r.(*ssa.Extract); ok {
					if call, ok := e.Tuple.(*ssa.Call); ok && c19AddsItsResult(an.Callee(call).Static) {
						added, how = true, "returned by "+an.Callee(call).String()+" which adds it"
					}
				}
			}
			if !added {
				for _, a := range an.Calls(fn, c19AddM...) {
					arg := c19StripIface(an.Args(a)[1])
					if !an.OnNilEdgeOf(fn, a, up) {
						continue
					}
					if c19SameNode(fn, nd, arg) {
						added, how = true, "added by DAGService.Add on the nil-error edge"
					}
				}
			}
			c.Check(added, "O3", "R-FLOW", name, "child.Node-added-to-dagservice", up.Pos(),
				"the propagated node is "+how,
				"the node handed to the parent was not (successfully) added to the DAG service in this function: the parent links a block that may not exist")
		}
	}
	c.Min("O3 upward updateChildEntry calls", nUp, 5)

	// reached on every non-error path, in every function that propagates
	// upward (flushUp has its own conditional rule below)
	fuFn := p.Func(pk, "fileDescriptor", "flushUp")
	nProp := 0
	for _, fn := range fns {
		ups := upCalls[fn]
		if len(ups) == 0 || fn == fuFn {
			continue
		}
		nProp++
		blocked := map[ssa.Instruction]bool{}
		for _, u := range ups {
			blocked[u] = true
		}
		ok := true
		var at token.Pos = fn.Pos()
		for _, r := range an.Returns(fn) {
			if !an.Reaches(fn, nil, r, nil, blocked) {
				continue
			}
			if an.ReturnErrKind(fn, r) != an.ErrKindNonNil {
				ok, at = false, r.Pos()
			}
		}
		c.Check(ok, "O3", "R-POST", an.FuncName(fn), "success=>propagated", at,
			"every return that is not an error return lies behind parent.updateChildEntry",
			an.FuncName(fn)+" can return success without calling parent.updateChildEntry: the change stays local and is missing from the flushed root")
	}
	c.Min("O3 propagating functions besides flushUp", nProp, 3)
	if fu := p.Func(pk, "fileDescriptor", "flushUp"); c.Need(fu != nil && len(fu.Params) == 2, "fileDescriptor.flushUp(fullSync)") {
		fNode := p.Field(pk, "File", "node")
		ups := upCalls[fu]
		stores := an.FieldStores(fu, fNode)
		if c.Need(len(ups) > 0 && len(stores) > 0 && fNode != nil, "flushUp: updateChildEntry and store to File.node") {
			var unl []ssa.Value
			for _, l := range an.Calls(fu, an.M("sync/atomic", "Bool", "Load")) {
				if v := an.CallValue(l); v != nil {
					unl = append(unl, v)
				}
			}
			cut := an.BoolEdges(fu, []ssa.Value{fu.Params[1]}, false).Union(an.BoolEdges(fu, unl, true))
			blocked := map[ssa.Instruction]bool{}
			for _, u := range ups {
				blocked[u] = true
			}
			for _, st := range stores {
				r := an.ReachesAnyReturn(fu, st, cut, blocked)
				c.Check(r == nil, "O3", "R-POST", an.FuncName(fu), "fullSync&&linked=>propagated", st.Pos(),
					"after the file's node is replaced, every path with fullSync set and the file linked calls parent.updateChildEntry",
					"flushUp can return after replacing the file's node without updating the parent although fullSync is set and the file is linked: Flush/Close acknowledge data that is missing from the directory")
			}
		}
	}
	// Root hands the CID to the republisher
	if ru := p.Func(pk, "Root", "updateChildEntry"); c.Need(ru != nil, "Root.updateChildEntry") {
		fRepub := p.Field(pk, "Root", "repub")
		upd := an.Calls(ru, an.M(pk, "Republisher", "Update"))
		if c.Need(fRepub != nil && len(upd) > 0, "Root.repub, Republisher.Update call") {
			var rl []ssa.Value
			for _, l := range an.FieldReads(ru, fRepub) {
				rl = append(rl, l)
			}
			noRepub := an.NilEdges(ru, rl, true)
			blocked := map[ssa.Instruction]bool{}
			for _, u := range upd {
				blocked[u] = true
			}
			ok := true
			at := ru.Pos()
			for _, r := range an.Returns(ru) {
				if an.ReturnErrKind(ru, r) == an.ErrKindNonNil {
					continue
				}
				if an.Reaches(ru, nil, r, noRepub, blocked) {
					ok, at = false, r.Pos()
				}
			}
			c.Check(ok, "O3", "R-POST", an.FuncName(ru), "success=>repub.Update", at,
				"every success return with a republisher configured passes repub.Update",
				"Root.updateChildEntry can succeed without telling the republisher: the new root is never published")
			for _, u := range upd {
				cidCall, isCid := an.IsCallTo(an.Args(u)[0], an.M("github.com/ipfs/go-ipld-format", "Node", "Cid"))
				okArg := isCid && c19IsParamField(an.Recv(cidCall), ru.Params[1], "Node")
				c.Check(okArg, "O3", "R-FLOW", an.FuncName(ru), "repub.Update(c.Node.Cid())", u.Pos(),
					"the republisher receives the CID of the updated root node", "the republisher does not receive c.Node.Cid() of the child passed in: a stale or unrelated root would be published")
			}
		}
	}
}

// c19SameNode: v is the node `arg`, or a load of a field into which `arg` was
// stored earlier in fn (fi.node after fi.node = nd).
func c19SameNode(fn *ssa.Function, v, arg ssa.Value) bool {
	if an.SameObj(v, arg) {
		return true
	}
	for _, r := range an.Roots(v, nil) {
		r = c19StripIface(r)
		if an.SameObj(r, arg) {
			continue
		}
		u, ok := r.(*ssa.UnOp)
		if !ok || u.Op != token.MUL {
			return false
		}
		f, b := an.FieldOf(u.X)
		if f == nil {
			return false
		}
		found := false
		for _, st := range an.StoresToField(fn, f, b) {
			if an.SameObj(c19StripIface(st.Val), arg) && an.Dominates(st, u) {
				found = true
			}
		}
		if !found {
			return false
		}
	}
	return true
}

// ---------------------------------------------------------------- O4

func c19Settings(c *an.Ctx, pk string, fns []*ssa.Function) {
	p := c.P
	settings := []string{"MaxLinks", "MaxHAMTFanout", "HAMTShardingSize", "SizeEstimationMode"}
	isSetting := func(x string) bool {
		for _, s := range settings {
			if s == x {
				return true
			}
		}
		return false
	}
	onDir := func(ci an.CallInfo) bool {
		return strings.HasSuffix(ci.Pkg, c19uio) && (ci.Recv == "Directory" || ci.Recv == "DynamicDirectory" || ci.Recv == "BasicDirectory" || ci.Recv == "HAMTDirectory")
	}
	// copy sites: SetX(<GetY() of another directory>)
	nSites := 0
	for _, fn := range fns {
		copied := map[string]string{} // X -> Y
		var pos token.Pos
		srcs, dsts := map[string]bool{}, map[string]bool{}
		for _, call := range an.AllCalls(fn) {
			ci := an.Callee(call)
			if !onDir(ci) || !strings.HasPrefix(ci.Name, "Set") || len(an.Args(call)) != 1 {
				continue
			}
			x := strings.TrimPrefix(ci.Name, "Set")
			for _, r := range an.Roots(an.Args(call)[0], nil) {
				g, ok := r.(*ssa.Call)
				if !ok {
					continue
				}
				gi := an.Callee(g)
				if onDir(gi) && strings.HasPrefix(gi.Name, "Get") {
					copied[x] = strings.TrimPrefix(gi.Name, "Get")
					pos = call.Pos()
					srcs[an.XPath(an.Recv(g))] = true
					dsts[an.XPath(an.Recv(call))] = true
				}
			}
		}
		if len(copied) == 0 {
			continue
		}
		nSites++
		name := an.FuncName(fn)
		var missing, crossed []string
		for _, s := range settings {
			y, ok := copied[s]
			if !ok {
				missing = append(missing, s)
			} else if y != s {
				crossed = append(crossed, "Set"+s+"(Get"+y+"())")
			}
		}
		for x, y := range copied {
			if !isSetting(x) && x != y {
				crossed = append(crossed, "Set"+x+"(Get"+y+"())")
			}
		}
		sort.Strings(crossed)
		c.Check(len(missing) == 0, "O4", "R-SIB", name, "carries-over-all-unpersisted-settings", pos,
			"the new directory object receives MaxLinks, MaxHAMTFanout, HAMTShardingSize and SizeEstimationMode of the old/parent one",
			"the directory object created here does not receive "+strings.Join(missing, ", ")+" from the old/parent directory while the sibling sites copy it: the setting silently falls back to the global default (different sharding threshold => different DAG)")
		c.Check(len(crossed) == 0, "O4", "R-FLOW", name, "each-setting-from-its-own-getter", pos,
			"every SetX takes GetX of the same setting", "setting copied from the wrong getter: "+strings.Join(crossed, ", "))
		c.Check(len(srcs) == 1 && len(dsts) == 1, "O4", "R-FLOW", name, "one-source-one-target", pos,
			"all settings are read from one directory and written to one directory",
			fmt.Sprintf("settings are copied between %d source and %d target directory objects in one function: some setting goes to/comes from the wrong object", len(srcs), len(dsts)))
	}
	c.Min("O4 copy sites (SetX(GetX()))", nSites, 2)

	// option table: options field <-> setting
	optT := p.Named(pk, "options")
	if !c.Need(optT != nil, "mfs.options") {
		return
	}
	ost := optT.Underlying().(*types.Struct)
	fieldFor := map[string]*types.Var{}
	all := append([]string{"CidBuilder"}, settings...)
	for _, s := range all {
		for i := 0; i < ost.NumFields(); i++ {
			if strings.EqualFold(ost.Field(i).Name(), s) {
				fieldFor[s] = ost.Field(i)
			}
		}
		c.Need(fieldFor[s] != nil, "options field for setting "+s)
	}
	// fillFrom: o.x = d.unixfsDir.GetX()
	if ff := p.Func(pk, "options", "fillFrom"); c.Need(ff != nil, "options.fillFrom") {
		for _, s := range all {
			f := fieldFor[s]
			if f == nil {
				continue
			}
			ok := false
			for _, st := range an.FieldStores(ff, f) {
				v := st.Val
				// sizeEstimationMode is a pointer to a local holding the getter result
				for _, r := range an.Roots(v, nil) {
					if a, isA := r.(*ssa.Alloc); isA && a.Referrers() != nil {
						for _, rr := range *a.Referrers() {
							if s2, isS := rr.(*ssa.Store); isS && s2.Addr == a {
								r = s2.Val
							}
						}
					}
					r = c19StripIface(r)
					if g, isC := r.(*ssa.Call); isC {
						gi := an.Callee(g)
						if onDir(gi) && gi.Name == "Get"+s {
							ok = true
						}
					}
				}
			}
			c.Check(ok, "O4", "R-TABLE", an.FuncName(ff), "inherit:"+s, ff.Pos(),
				"unset option "+f.Name()+" is filled from the parent's Get"+s+"()",
				"options.fillFrom does not inherit "+s+" from the parent directory (field "+f.Name()+"): a child directory created by Mkdir uses the global default instead of the parent's setting")
		}
	}
	// appliers: newEmptyDirectory and NewRoot use every option
	for _, spec := range []struct {
		fn   *ssa.Function
		what string
		set  []string
	}{
		{p.Func(pk, "", "newEmptyDirectory"), "newEmptyDirectory", all},
		{p.Func(pk, "", "NewRoot"), "NewRoot", all},
	} {
		if !c.Need(spec.fn != nil, "mfs."+spec.what) {
			continue
		}
		for _, s := range spec.set {
			f := fieldFor[s]
			if f == nil {
				continue
			}
			ok := false
			for _, call := range an.AllCalls(spec.fn) {
				ci := an.Callee(call)
				if !strings.HasSuffix(ci.Pkg, c19uio) || (ci.Name != "With"+s && ci.Name != "Set"+s) {
					continue
				}
				args := call.Common().Args
				if len(args) == 0 {
					continue
				}
				for _, r := range an.Roots(args[len(args)-1], nil) {
					if u, isU := r.(*ssa.UnOp); isU && u.Op == token.MUL {
						// o.x, or *o.x for the pointer-typed option
						x := u.X
						if u2, isU2 := x.(*ssa.UnOp); isU2 && u2.Op == token.MUL {
							x = u2.X
						}
						if ff, _ := an.FieldOf(x); ff == f {
							ok = true
						}
					}
					if fv, isF := r.(*ssa.Field); isF {
						if ff, _ := an.FieldOf(fv); ff == f {
							ok = true
						}
					}
				}
			}
			c.Check(ok, "O4", "R-TABLE", an.FuncName(spec.fn), "apply:"+s, spec.fn.Pos(),
				"option "+f.Name()+" is applied to the created/loaded directory (With"+s+"/Set"+s+")",
				spec.what+" does not apply option "+f.Name()+" ("+s+") to the directory it creates/loads: the configured value is ignored")
		}
	}
}

// c19IsParamField: v is a read of field `field` of the (struct-valued)
// parameter prm, directly or through the cell the parameter is spilled to.
func c19IsParamField(v ssa.Value, prm *ssa.Parameter, field string) bool {
	switch x := v.(type) {
	case *ssa.Field:
		f, b := an.FieldOf(x)
		return f != nil && f.Name() == field && b == ssa.Value(prm)
	case *ssa.UnOp:
		if x.Op != token.MUL {
			return false
		}
		f, b := an.FieldOf(x.X)
		if f == nil || f.Name() != field {
			return false
		}
		a, ok := b.(*ssa.Alloc)
		if !ok || a.Referrers() == nil {
			return false
		}
		n := 0
		good := false
		for _, r := range *a.Referrers() {
			if st, ok := r.(*ssa.Store); ok && st.Addr == a {
				n++
				good = st.Val == ssa.Value(prm)
			}
		}
		return n == 1 && good
	}
	return false
}

// ---------------------------------------------------------------- O6

func c19Cache(c *an.Ctx, pk string, fns []*ssa.Function) {
	p := c.P
	fCache, fUfs := p.Field(pk, "Directory", "entriesCache"), p.Field(pk, "Directory", "unixfsDir")
	if !c.Need(fCache != nil && fUfs != nil, "Directory.entriesCache, Directory.unixfsDir") {
		return
	}
	// (a) functions that fill the cache from a DAG node (role: store into
	// entriesCache[name] and return an FSNode): every success return hands out
	// the very object that was cached under the name parameter
	nA := 0
	for _, fn := range p.Methods(pk, "Directory") {
		var upd []*ssa.MapUpdate
		an.Instrs(fn, func(in ssa.Instruction) {
			if mu, ok := in.(*ssa.MapUpdate); ok {
				if u, ok := mu.Map.(*ssa.UnOp); ok {
					if f, b := an.FieldOf(u.X); f == fCache && b == ssa.Value(fn.Params[0]) {
						upd = append(upd, mu)
					}
				}
			}
		})
		res := fn.Signature.Results()
		if len(upd) == 0 || res.Len() != 2 || !an.TypeIs(res.At(0).Type(), pk, "FSNode") {
			continue
		}
		for _, r := range an.Returns(fn) {
			if an.ReturnErrKind(fn, r) == an.ErrKindNonNil || an.IsNilConst(r.Results[0]) || !an.Reaches(fn, nil, r, nil, nil) {
				continue
			}
			nA++
			obj := c19StripIface(r.Results[0])
			ok := false
			for _, mu := range upd {
				if c19StripIface(mu.Value) == obj && an.Dominates(mu, r) {
					if _, isParam := mu.Key.(*ssa.Parameter); isParam {
						ok = true
					}
				}
			}
			c.Check(ok, "O6", "R-PAIR", an.FuncName(fn), "returned-child-is-cached", r.Pos(),
				"the FSNode handed out is the object stored in entriesCache under the looked-up name",
				"an FSNode is handed out without being cached under the looked-up name (or another object is cached): the next lookup builds a second File/Directory object for the same entry, and changes made through one of them (unflushed descriptors, non-sync closes) never reach the directory node")
		}
	}
	c.Min("O6 success returns of cache-filling functions", nA, 3)

	// (b) the directory's node is produced after the cached children were synced
	nB := 0
	for _, fn := range p.Methods(pk, "Directory") {
		for _, call := range an.Calls(fn, an.M(c19uio, "Directory", "GetNode")) {
			u, ok := an.Recv(call).(*ssa.UnOp)
			if !ok {
				continue
			}
			if f, b := an.FieldOf(u.X); f != fUfs || b != ssa.Value(fn.Params[0]) {
				continue
			}
			// only functions that hand the node out (return it, possibly copied), not localUpdate-style updates of one entry
			if len(an.Calls(fn, an.M(c19uio, "Directory", "AddChild"))) > 0 {
				continue
			}
			nB++
			syncs := an.Calls(fn, an.M(pk, "Directory", "cacheSync"))
			ok = false
			for _, s := range syncs {
				if an.SameObj(an.Recv(s), fn.Params[0]) && an.OnNilEdgeOf(fn, s, call) {
					ok = true
				}
			}
			c.Check(ok, "O6", "R-DOM", an.FuncName(fn), "unixfsDir.GetNode<=cacheSync-ok", call.Pos(),
				"the directory node is taken only after cacheSync succeeded (cached children written into the UnixFS directory)",
				"the directory node is produced without (successfully) syncing the cached children first: children changed through non-propagating closes are missing from / stale in the node that is flushed and published")
		}
	}
	c.Min("O6 directory node producers", nB, 1)
	// cacheSync itself: every cache entry's current node is written under its own key
	if cs := p.Func(pk, "Directory", "cacheSync"); c.Need(cs != nil, "Directory.cacheSync") {
		n := 0
		for _, add := range an.Calls(cs, an.M(c19uio, "Directory", "AddChild")) {
			n++
			args := an.Args(add)
			gn, isGN := an.IsCallTo(args[2], an.M(pk, "FSNode", "GetNode"))
			okSrc := false
			if isGN {
				// name and entry come from the same iteration of a range over entriesCache
				var nx ssa.Value
				if e, ok := an.Recv(gn).(*ssa.Extract); ok && e.Index == 2 {
					nx = e.Tuple
				}
				if e, ok := args[1].(*ssa.Extract); ok && e.Index == 1 && nx != nil && e.Tuple == nx {
					if next, ok := nx.(*ssa.Next); ok {
						if rg, ok := next.Iter.(*ssa.Range); ok {
							if u, ok := rg.X.(*ssa.UnOp); ok {
								if f, _ := an.FieldOf(u.X); f == fCache {
									okSrc = an.OnNilEdgeOf(cs, gn, add)
								}
							}
						}
					}
				}
			}
			c.Check(okSrc, "O6", "R-FLOW", an.FuncName(cs), "sync:entry.GetNode()->AddChild(name)", add.Pos(),
				"each cached child's current node is linked under the child's own cache key",
				"cacheSync does not link entry.GetNode() of each entriesCache entry under that entry's key: cached children are flushed under a wrong name or with a stale node")
		}
		c.Min("O6 AddChild in cacheSync", n, 1)
	}

	// (c) Directory.AddChild: node stored in the DAG service before it is linked
	if ac := p.Func(pk, "Directory", "AddChild"); c.Need(ac != nil && len(ac.Params) == 3, "Directory.AddChild(name, nd)") {
		for _, link := range an.Calls(ac, an.M(c19uio, "Directory", "AddChild")) {
			ok := false
			for _, a := range an.Calls(ac, c19AddM...) {
				if c19StripIface(an.Args(a)[1]) == ssa.Value(ac.Params[2]) && an.OnNilEdgeOf(ac, a, link) {
					ok = true
				}
			}
			nd := c19StripIface(an.Args(link)[2]) == ssa.Value(ac.Params[2]) && an.Args(link)[1] == ssa.Value(ac.Params[1])
			c.Check(ok && nd, "O6", "R-DOM", an.FuncName(ac), "link<=dagService.Add(nd)-ok", link.Pos(),
				"the node is stored in the DAG service (nil-error edge) before it is linked under the given name",
				"Directory.AddChild links a node that was not (successfully) added to the DAG service, or links another node/name than the one passed in: the flushed directory references a missing block / the entry is wrong")
		}
	}
}
