package props

import (
	"fmt"
	"go/token"
	"go/types"
	"strings"

	"golang.org/x/tools/go/ssa"

	"verif/checker/an"
)

// ---------------------------------------------------------------- O7
//
// Error atomicity of multi-step operations ("a failed call changes nothing"):
// in every function of package mfs, no fallible operand resolution may be
// reachable from a destructive step. A destructive step is a call of
// Directory.Unlink or of a same-package function that (transitively) contains
// one. A fallible operand resolution is a call with an error result that is
// looked at and a further result that is an inode or a DAG node (FSNode,
// *Directory, *File, ipld.Node, or a struct of package mfs carrying one):
// Directory.Child, Lookup, DirLookup, GetNode and every helper of that shape.
// If such a call can run after the removal, its failure returns an error from
// an operation that has already deleted an entry; when the removed entry is
// the operand itself (self-move), the resolution fails because of the removal.

func c19ErrAtomic(c *an.Ctx, pk string, fns []*ssa.Function) {
	inPkg := map[*ssa.Function]bool{}
	for _, fn := range fns {
		inPkg[fn] = true
	}
	isUnlink := an.M(pk, "Directory", "Unlink")

	// functions that (transitively, through plain same-package calls) unlink
	destr := map[*ssa.Function]bool{}
	for changed := true; changed; {
		changed = false
		for _, fn := range fns {
			if destr[fn] {
				continue
			}
			for _, call := range an.AllCalls(fn) {
				if _, ok := call.(*ssa.Call); !ok {
					continue
				}
				ci := an.Callee(call)
				if isUnlink.Match(ci) || (ci.Static != nil && inPkg[ci.Static] && destr[ci.Static]) {
					destr[fn] = true
					changed = true
					break
				}
			}
		}
	}

	var operandType func(t types.Type, depth int) bool
	operandType = func(t types.Type, depth int) bool {
		if an.TypeIs(t, pk, "FSNode") || an.TypeIs(t, pk, "Directory") || an.TypeIs(t, pk, "File") {
			return true
		}
		if n, ok := types.Unalias(t).(*types.Named); ok && n.Obj().Pkg() != nil && strings.HasSuffix(n.Obj().Pkg().Path(), "go-ipld-format") && n.Obj().Name() == "Node" {
			return true
		}
		if depth > 0 {
			return false
		}
		u := t
		if p, ok := types.Unalias(u).(*types.Pointer); ok {
			u = p.Elem()
		}
		n, ok := types.Unalias(u).(*types.Named)
		if !ok || n.Obj().Pkg() == nil || n.Obj().Pkg().Name() != pk {
			return false
		}
		st, ok := n.Underlying().(*types.Struct)
		if !ok {
			return false
		}
		for i := 0; i < st.NumFields(); i++ {
			if operandType(st.Field(i).Type(), depth+1) {
				return true
			}
		}
		return false
	}
	// a call that resolves an operand and whose error is looked at
	isResolution := func(call ssa.CallInstruction) bool {
		if _, ok := call.(*ssa.Call); !ok {
			return false
		}
		ci := an.Callee(call)
		if ci.Builtin != "" {
			return false
		}
		if ci.Static != nil {
			if !inPkg[ci.Static] {
				return false
			}
		} else if !(ci.Invoke && strings.HasSuffix(ci.Pkg, "/"+pk)) {
			return false
		}
		sig := call.Common().Signature()
		if sig == nil || sig.Results().Len() < 2 {
			return false
		}
		errs := an.ErrResult(call)
		used := false
		for _, e := range errs {
			if e.Referrers() != nil && len(*e.Referrers()) > 0 {
				used = true
			}
		}
		if !used {
			return false
		}
		for i := 0; i < sig.Results().Len()-1; i++ {
			if operandType(sig.Results().At(i).Type(), 0) {
				return true
			}
		}
		return false
	}

	nOps := 0
	for _, fn := range fns {
		if !destr[fn] || fn.Blocks == nil {
			continue
		}
		var ds, ls []ssa.CallInstruction
		for _, call := range an.AllCalls(fn) {
			if _, ok := call.(*ssa.Call); !ok {
				continue
			}
			ci := an.Callee(call)
			if isUnlink.Match(ci) || (ci.Static != nil && inPkg[ci.Static] && destr[ci.Static]) {
				ds = append(ds, call)
			}
			if isResolution(call) {
				ls = append(ls, call)
			}
		}
		if len(ds) == 0 || len(ls) == 0 {
			continue
		}
		nOps++
		var bad []string
		at := token.NoPos
		for _, d := range ds {
			for _, l := range ls {
				if d == l {
					continue
				}
				if an.Reaches(fn, d, l, nil, nil) {
					bad = append(bad, fmt.Sprintf("%s can run after %s", an.Callee(l), an.Callee(d)))
					if at == token.NoPos {
						at = l.Pos()
					}
				}
			}
		}
		bad = c20Uniq(bad)
		if at == token.NoPos {
			at = ds[0].Pos()
		}
		c.Check(len(bad) == 0, "O7", "R-DOM", c20KeyName(fn), "operand-resolutions<=first-removal", at,
			fmt.Sprintf("all %d fallible operand resolutions (Child/Lookup/GetNode-shaped calls) precede every removal of an entry (%d site(s))", len(ls), len(ds)),
			"a fallible operand resolution is reachable from a removal of an entry: "+strings.Join(bad, "; ")+" — if it fails the operation returns an error although an entry has already been deleted (a failed call changes the tree), and when the removed entry is the operand itself (move of a file onto itself) the resolution fails because of the removal and the file is destroyed")
	}
	c.Min("O7 operations that both remove an entry and resolve operands", nOps, 1)
}
